// Replay driver (copied to tests/verif_replay.rs of a scratch copy of the crate by /verif/vf/replay.py).
// It never decides a property: when Kani has reported a failed assertion on the real function with
// stubbed system calls, the matching scenario below drives the REAL, un-stubbed crate into the same
// situation - where necessary by interposing libc functions inside this test binary with a scripted
// fault - and checks the same condition.  A failing scenario = the violation reproduced on real code.
#![allow(clippy::missing_safety_doc)]
use ipc_channel::platform::{self, OsIpcChannel, OsIpcSender, OsIpcSharedMemory};
use std::sync::atomic::{AtomicI32, AtomicI64, AtomicUsize, Ordering};
use std::time::Duration;

static FAIL_CONNECT: AtomicI32 = AtomicI32::new(0);
static POLL_FORCE_RET: AtomicI32 = AtomicI32::new(i32::MIN);
static POLL_TIMEOUT_SEEN: AtomicI64 = AtomicI64::new(i64::MIN);
static FCNTL_SETFL_CALLS: AtomicUsize = AtomicUsize::new(0);

unsafe fn next(name: &[u8]) -> *mut libc::c_void {
    libc::dlsym(libc::RTLD_NEXT, name.as_ptr() as *const libc::c_char)
}

#[no_mangle]
pub unsafe extern "C" fn connect(fd: libc::c_int, addr: *const libc::sockaddr, len: libc::socklen_t) -> libc::c_int {
    if FAIL_CONNECT.load(Ordering::SeqCst) != 0 {
        *libc::__errno_location() = libc::ECONNREFUSED;
        return -1;
    }
    let f: unsafe extern "C" fn(libc::c_int, *const libc::sockaddr, libc::socklen_t) -> libc::c_int = std::mem::transmute(next(b"connect\0"));
    f(fd, addr, len)
}

#[no_mangle]
pub unsafe extern "C" fn poll(fds: *mut libc::pollfd, nfds: libc::nfds_t, timeout: libc::c_int) -> libc::c_int {
    POLL_TIMEOUT_SEEN.store(timeout as i64, Ordering::SeqCst);
    let forced = POLL_FORCE_RET.load(Ordering::SeqCst);
    if forced != i32::MIN {
        return forced;
    }
    let f: unsafe extern "C" fn(*mut libc::pollfd, libc::nfds_t, libc::c_int) -> libc::c_int = std::mem::transmute(next(b"poll\0"));
    f(fds, nfds, timeout)
}

fn open_fds() -> Vec<i32> {
    (0..1024).filter(|fd| unsafe { libc::fcntl(*fd, libc::F_GETFD) } >= 0).collect()
}
fn cloexec(fd: i32) -> bool {
    unsafe { libc::fcntl(fd, libc::F_GETFD) & libc::FD_CLOEXEC != 0 }
}
fn arg(name: &str) -> Option<String> {
    let all = std::env::var("VERIF_REPLAY_ARGS").ok()?;
    all.split(',').find_map(|kv| kv.strip_prefix(&format!("{name}=")).map(|s| s.to_string()))
}

fn scenario_connect_err_no_leak() {
    let before = open_fds();
    FAIL_CONNECT.store(1, Ordering::SeqCst);
    for _ in 0..10 {
        assert!(OsIpcSender::connect("/tmp/verif-replay-nonexistent/socket".to_string()).is_err());
    }
    FAIL_CONNECT.store(0, Ordering::SeqCst);
    let after = open_fds();
    assert_eq!(before, after, "descriptors left behind by failed connect()s");
}

fn scenario_created_descriptors_cloexec() {
    let before = open_fds();
    let (_tx, _rx) = platform::channel().unwrap();
    for fd in open_fds() {
        if !before.contains(&fd) {
            assert!(cloexec(fd), "descriptor {fd} created by channel() is not close-on-exec");
        }
    }
}

fn scenario_received_descriptors_cloexec(mode: &str) {
    let (tx, rx) = platform::channel().unwrap();
    let (inner_tx, _inner_rx) = platform::channel().unwrap();
    tx.send(b"x", vec![OsIpcChannel::Sender(inner_tx)], vec![]).unwrap();
    let before = open_fds();
    let (_d, mut ch, _r) = match mode {
        "try_recv" => rx.try_recv().unwrap(),
        "timeout" => rx.try_recv_timeout(Duration::from_millis(500)).unwrap(),
        _ => rx.recv().unwrap(),
    };
    for fd in open_fds() {
        if !before.contains(&fd) {
            assert!(cloexec(fd), "descriptor {fd} received through {mode} is not close-on-exec");
        }
    }
    for c in ch.iter_mut() {
        drop(c.to_sender());
    }
}

fn scenario_nonblocking_flag_clear_on_return(mode: &str) {
    let (_tx, rx) = platform::channel().unwrap();
    let before = open_fds();
    let _ = before;
    // the receiver's descriptor: the highest one created by channel() is rx (socketpair order tx, rx)
    let fds = open_fds();
    let r = match mode {
        "timeout0" => rx.try_recv_timeout(Duration::from_micros(arg("micros").and_then(|s| s.parse().ok()).unwrap_or(0))),
        _ => rx.try_recv(),
    };
    assert!(r.is_err());
    // every descriptor we hold must be in blocking mode again
    for fd in fds {
        let fl = unsafe { libc::fcntl(fd, libc::F_GETFL) };
        if fl >= 0 && unsafe { libc::fcntl(fd, libc::F_GETFD) } >= 0 {
            let mut st: libc::stat = unsafe { std::mem::zeroed() };
            if unsafe { libc::fstat(fd, &mut st) } == 0 && (st.st_mode & libc::S_IFMT) == libc::S_IFSOCK {
                assert!(fl & libc::O_NONBLOCK == 0, "socket {fd} left in non-blocking mode after a {mode} receive");
            }
        }
    }
    let _ = FCNTL_SETFL_CALLS.load(Ordering::SeqCst);
}

fn scenario_timeout_poll_waits_requested_milliseconds() {
    let secs: u64 = arg("secs").and_then(|s| s.parse().ok()).unwrap_or(0);
    let nanos: u32 = arg("nanos").and_then(|s| s.parse().ok()).unwrap_or(1_500_000);
    let (_tx, rx) = platform::channel().unwrap();
    POLL_FORCE_RET.store(0, Ordering::SeqCst); // do not actually wait
    let r = rx.try_recv_timeout(Duration::new(secs, nanos));
    POLL_FORCE_RET.store(i32::MIN, Ordering::SeqCst);
    assert!(r.is_err());
    let ms: u128 = (secs as u128) * 1000 + (nanos / 1_000_000) as u128;
    let expect: i64 = if ms <= i32::MAX as u128 { ms as i64 } else { -1 };
    assert_eq!(POLL_TIMEOUT_SEEN.load(Ordering::SeqCst), expect, "poll() was given a different timeout than the {secs}s {nanos}ns requested");
}

fn scenario_sender_closed_once_at_last_drop() {
    let before = open_fds();
    let (tx, rx) = platform::channel().unwrap();
    let c1 = tx.clone();
    let c2 = c1.clone();
    let with_all = open_fds().len();
    drop(tx);
    assert_eq!(open_fds().len(), with_all, "descriptor closed while clones are alive");
    drop(c2);
    assert_eq!(open_fds().len(), with_all, "descriptor closed while a clone is alive");
    drop(c1);
    assert_eq!(open_fds().len(), with_all - 1, "descriptor not closed at the last drop");
    drop(rx);
    assert_eq!(open_fds(), before);
}

fn scenario_opaque_released_exactly_once() {
    let (tx, rx) = platform::channel().unwrap();
    let before = open_fds();
    for _ in 0..10 {
        let (inner_tx, inner_rx) = platform::channel().unwrap();
        tx.send(b"x", vec![OsIpcChannel::Sender(inner_tx)], vec![]).unwrap();
        drop(inner_rx);
        let got = rx.recv().unwrap();
        drop(got); // attachments never converted
    }
    assert_eq!(open_fds(), before, "unconverted received descriptors were not released");
}

fn scenario_consume() {
    let before = open_fds();
    let (tx, rx) = platform::channel().unwrap();
    let moved = rx.consume();
    drop(rx);
    let n = open_fds().len();
    tx.send(b"ok", vec![], vec![]).unwrap();
    assert_eq!(moved.recv().unwrap().0, b"ok");
    drop(moved);
    assert_eq!(open_fds().len(), n - 1);
    drop(tx);
    assert_eq!(open_fds(), before);
}

fn scenario_shared_memory_clone() {
    let shm = OsIpcSharedMemory::from_bytes(b"abcdef");
    let before = open_fds();
    let c = shm.clone();
    for fd in open_fds() {
        if !before.contains(&fd) {
            assert!(cloexec(fd), "descriptor {fd} duplicated by OsIpcSharedMemory::clone is not close-on-exec");
        }
    }
    assert_eq!(&*c, b"abcdef");
    drop(c);
    assert_eq!(open_fds(), before, "dropping the clone did not release exactly its own descriptor");
    assert_eq!(&*shm, b"abcdef");
}

#[test]
fn replay() {
    let sc = std::env::var("VERIF_REPLAY_SCENARIO").unwrap_or_default();
    match sc.as_str() {
        "connect_err_no_leak" => scenario_connect_err_no_leak(),
        "created_descriptors_cloexec" => scenario_created_descriptors_cloexec(),
        "received_descriptors_cloexec" => {
            scenario_received_descriptors_cloexec("recv");
            scenario_received_descriptors_cloexec("try_recv");
            scenario_received_descriptors_cloexec("timeout");
        },
        "nonblocking_flag_clear_on_return" => {
            scenario_nonblocking_flag_clear_on_return("try_recv");
            scenario_nonblocking_flag_clear_on_return("timeout0");
        },
        "timeout_poll_waits_requested_milliseconds" => scenario_timeout_poll_waits_requested_milliseconds(),
        "sender_closed_once_at_last_drop" => scenario_sender_closed_once_at_last_drop(),
        "opaque_released_exactly_once" => scenario_opaque_released_exactly_once(),
        "consume" => scenario_consume(),
        "shared_memory_clone" => scenario_shared_memory_clone(),
        "" => {},
        other => panic!("unknown replay scenario {other}"),
    }
}
