#!/usr/bin/env python3
"""dev helper: generate a unit file and run verus on it; prints rendered errors."""
import sys, importlib, os, json
sys.path.insert(0, os.path.dirname(os.path.abspath(__file__)))
from vf import gen, verus
name = sys.argv[1]
repo = os.environ.get("REPO", "/repo")
mod = importlib.import_module("units." + name)
try:
    g = gen.build_unit(repo, mod.UNIT, os.path.dirname(os.path.abspath(__file__)))
except gen.GenError as e:
    print("GENERROR", e); sys.exit(2)
out = os.environ.get("OUT", "/tmp/vt/%s.rs" % name)
os.makedirs(os.path.dirname(out), exist_ok=True)
open(out, "w").write(g.text)
if "--no-run" in sys.argv: sys.exit(0)
r = verus.run_verus(out, multiple_errors=int(os.environ.get("ME", "5")))
for d in r.diags:
    print(d.get("rendered"))
print("verified", r.verified, "errors", r.errors, "wall %.1f" % r.wall)
if r.json is None: print(r.raw_stdout[-2000:], r.raw_stderr[-3000:])
