
// ---------------------------------------------------------------------------
// Appended by /verif (scratch copy only, never committed to the repository):
// loop-free Kani harnesses on the REAL functions of this module, with the libc
// calls replaced by small ledger/flag models through -Z stubbing.
// ---------------------------------------------------------------------------
#[cfg(kani)]
mod verif_kani {
    use super::*;

    // ---------------- descriptor ledger ----------------
    const NFD: usize = 8;
    static mut OPEN: [bool; NFD] = [false; NFD];
    static mut NEXT: usize = 3;
    static mut CLOSE_CALLS: usize = 0;
    static mut FLAGS_SEEN: c_int = 0;

    // the first descriptor the kernel hands out may be ANY small number, 0 included (a daemon with stdin closed)
    fn ledger_init() {
        let first: usize = kani::any();
        kani::assume(first < 4);
        unsafe { NEXT = first };
    }
    unsafe fn alloc_fd() -> c_int {
        let fd = NEXT;
        assert!(fd < NFD);
        NEXT += 1;
        OPEN[fd] = true;
        OPEN_COUNT += 1;
        fd as c_int
    }
    static mut OPEN_COUNT: usize = 0;
    fn open_count() -> usize {
        unsafe { OPEN_COUNT }
    }
    unsafe fn k_socket(_domain: c_int, ty: c_int, _protocol: c_int) -> c_int {
        // C11: descriptors the library creates are close-on-exec
        assert!(ty & libc::SOCK_CLOEXEC != 0, "kani.ledger.socket_cloexec");
        if kani::any() {
            return -1;
        }
        alloc_fd()
    }
    unsafe fn k_socketpair(_domain: c_int, ty: c_int, _protocol: c_int, sv: *mut c_int) -> c_int {
        assert!(ty & libc::SOCK_CLOEXEC != 0, "kani.ledger.socketpair_cloexec");
        if kani::any() {
            return -1;
        }
        *sv = alloc_fd();
        *sv.add(1) = alloc_fd();
        0
    }
    unsafe fn k_connect(_fd: c_int, _addr: *const sockaddr, _len: socklen_t) -> c_int {
        if kani::any() {
            0
        } else {
            -1
        }
    }
    unsafe fn k_close(fd: c_int) -> c_int {
        // never close a descriptor we do not own, never close twice, never close -1
        assert!(fd >= 0 && (fd as usize) < NFD, "kani.ledger.close_only_valid_descriptors");
        assert!(OPEN[fd as usize], "kani.ledger.no_double_close");
        OPEN[fd as usize] = false;
        OPEN_COUNT -= 1;
        CLOSE_CALLS += 1;
        0
    }
    unsafe fn k_strncpy(dst: *mut c_char, _src: *const c_char, _n: size_t) -> *mut c_char {
        dst
    }
    fn k_last() -> UnixError {
        UnixError::Errno(kani::any())
    }
    fn k_panicking() -> bool {
        false
    }

    // ======================= K-ledger: descriptor ownership (C11, C03, C16) =======================

    // connect(): the descriptor is created before connect(2) and must not outlive a failure
    #[kani::proof]
    #[kani::stub(libc::socket, k_socket)]
    #[kani::stub(libc::connect, k_connect)]
    #[kani::stub(libc::close, k_close)]
    #[kani::stub(libc::strncpy, k_strncpy)]
    #[kani::stub(UnixError::last, k_last)]
    #[kani::stub(std::thread::panicking, k_panicking)]
    #[kani::unwind(4)]
    fn ledger_connect() {
        ledger_init();
        let before = open_count();
        let r = OsIpcSender::connect(String::from("s"));
        kani::cover!(r.is_ok(), "cover.connect_ok");
        kani::cover!(r.is_err(), "cover.connect_err");
        match r {
            Ok(sender) => {
                assert!(open_count() == before + 1, "kani.ledger.connect_ok_owns_one");
                drop(sender);
                assert!(open_count() == before, "kani.ledger.connect_ok_closed_on_drop");
            },
            Err(e) => {
                mem::forget(e);
                assert!(open_count() == before, "kani.ledger.connect_err_no_leak");
            },
        }
    }

    // channel(): created - closed = owned by the returned handles; each closed exactly once
    #[kani::proof]
    #[kani::stub(socketpair, k_socketpair)]
    #[kani::stub(libc::close, k_close)]
    #[kani::stub(UnixError::last, k_last)]
    #[kani::stub(std::thread::panicking, k_panicking)]
    fn ledger_channel() {
        ledger_init();
        match channel() {
            Ok((tx, rx)) => {
                assert!(open_count() == 2, "kani.ledger.channel_ok_owns_two");
                drop(rx);
                assert!(open_count() == 1, "kani.ledger.receiver_drop_closes_one");
                drop(tx);
                assert!(open_count() == 0, "kani.ledger.sender_drop_closes_one");
            },
            Err(e) => {
                mem::forget(e);
                assert!(open_count() == 0, "kani.ledger.channel_err_no_leak");
            },
        }
    }

    // consume(): ownership moves, the old handle is left at -1 and closes nothing
    #[kani::proof]
    #[kani::stub(libc::close, k_close)]
    #[kani::stub(std::thread::panicking, k_panicking)]
    fn ledger_receiver_consume() {
        ledger_init();
        let fd = unsafe { alloc_fd() };
        let rx = OsIpcReceiver::from_fd(fd);
        let moved = rx.consume();
        assert!(rx.fd.get() == -1, "kani.ledger.consume_leaves_minus_one");
        assert!(moved.fd.get() == fd, "kani.ledger.consume_moves_descriptor");
        drop(rx);
        assert!(open_count() == 1, "kani.ledger.consumed_handle_closes_nothing");
        drop(moved);
        assert!(open_count() == 0 && unsafe { CLOSE_CALLS } == 1, "kani.ledger.moved_handle_closes_once");
    }

    // OsIpcSender clones share one descriptor; closed once, at the last drop (C03)
    #[kani::proof]
    #[kani::stub(libc::close, k_close)]
    #[kani::stub(std::thread::panicking, k_panicking)]
    fn ledger_sender_clones() {
        ledger_init();
        let fd = unsafe { alloc_fd() };
        let s = OsIpcSender::from_fd(fd);
        let c1 = s.clone();
        let c2 = c1.clone();
        drop(s);
        assert!(open_count() == 1, "kani.ledger.sender_open_while_clone_lives_1");
        drop(c2);
        assert!(open_count() == 1, "kani.ledger.sender_open_while_clone_lives_2");
        drop(c1);
        assert!(open_count() == 0 && unsafe { CLOSE_CALLS } == 1, "kani.ledger.sender_closed_once_at_last_drop");
    }

    // OsOpaqueIpcChannel: converted once -> the new handle owns it; never converted -> released on drop (C16)
    #[kani::proof]
    #[kani::stub(libc::close, k_close)]
    #[kani::stub(std::thread::panicking, k_panicking)]
    fn ledger_opaque_channel() {
        ledger_init();
        let fd = unsafe { alloc_fd() };
        let mut o = OsOpaqueIpcChannel::from_fd(fd);
        let which: u8 = kani::any();
        if which == 0 {
            let s = o.to_sender();
            drop(o);
            assert!(open_count() == 1, "kani.ledger.opaque_converted_closes_nothing");
            drop(s);
        } else if which == 1 {
            let r = o.to_receiver();
            drop(o);
            assert!(open_count() == 1, "kani.ledger.opaque_converted_closes_nothing");
            drop(r);
        } else {
            drop(o);
        }
        assert!(open_count() == 0 && unsafe { CLOSE_CALLS } == 1, "kani.ledger.opaque_released_exactly_once");
    }

    // BackingStore / OsIpcSharedMemory drop: munmap iff mapped, then one close
    static mut MUNMAP_CALLS: usize = 0;
    static mut MUNMAP_LEN: usize = 0;
    unsafe fn k_munmap(_addr: *mut c_void, len: size_t) -> c_int {
        MUNMAP_CALLS += 1;
        MUNMAP_LEN = len;
        0
    }
    #[kani::proof]
    #[kani::stub(libc::close, k_close)]
    #[kani::stub(libc::munmap, k_munmap)]
    #[kani::stub(std::thread::panicking, k_panicking)]
    fn ledger_shared_memory_drop() {
        ledger_init();
        let fd = unsafe { alloc_fd() };
        let len: usize = kani::any();
        let mapped: bool = kani::any();
        let mut backing = [0u8; 1];
        let ptr = if mapped { backing.as_mut_ptr() } else { ptr::null_mut() };
        let shm = unsafe { OsIpcSharedMemory::from_raw_parts(ptr, len, BackingStore::from_fd(fd)) };
        drop(shm);
        assert!(unsafe { MUNMAP_CALLS } == (if mapped { 1 } else { 0 }), "kani.ledger.munmap_iff_mapped");
        assert!(!mapped || unsafe { MUNMAP_LEN } == len, "kani.ledger.munmap_same_length");
        assert!(open_count() == 0 && unsafe { CLOSE_CALLS } == 1, "kani.ledger.backing_store_closed_once");
    }

    // OsIpcSharedMemory::clone: one new close-on-exec descriptor, its own mapping; drop unmaps it and closes it once (C11, C05)
    static mut MMAP_CALLS: usize = 0;
    static mut MAP_BUF: [u8; 4] = [0; 4];
    unsafe fn k_fcntl_dup(fd: c_int, cmd: c_int, _arg: c_int) -> c_int {
        assert!(cmd == libc::F_DUPFD_CLOEXEC, "kani.ledger.duplicate_is_close_on_exec");
        assert!(fd >= 0 && (fd as usize) < NFD && OPEN[fd as usize], "kani.ledger.duplicate_of_owned_descriptor");
        alloc_fd()
    }
    unsafe fn k_dup_plain(fd: c_int) -> c_int {
        // a plain dup() is inherited across exec
        assert!(false, "kani.ledger.duplicate_is_close_on_exec");
        let _ = fd;
        alloc_fd()
    }
    unsafe fn k_mmap(_addr: *mut c_void, _len: size_t, _prot: c_int, flags: c_int, fd: c_int, _off: off_t) -> *mut c_void {
        assert!(flags & MAP_SHARED != 0, "kani.ledger.mapping_is_shared");
        assert!(fd >= 0 && (fd as usize) < NFD && OPEN[fd as usize], "kani.ledger.maps_an_owned_descriptor");
        MMAP_CALLS += 1;
        ptr::addr_of_mut!(MAP_BUF) as *mut c_void
    }
    #[kani::proof]
    #[kani::stub(libc::close, k_close)]
    #[kani::stub(libc::munmap, k_munmap)]
    #[kani::stub(libc::mmap, k_mmap)]
    #[kani::stub(libc::fcntl, k_fcntl_dup)]
    #[kani::stub(libc::dup, k_dup_plain)]
    #[kani::stub(std::thread::panicking, k_panicking)]
    fn ledger_shared_memory_clone() {
        ledger_init();
        let fd = unsafe { alloc_fd() };
        let len: usize = kani::any();
        let mut backing = [0u8; 1];
        let ptr = if len > 0 { backing.as_mut_ptr() } else { ptr::null_mut() };
        let shm = unsafe { OsIpcSharedMemory::from_raw_parts(ptr, len, BackingStore::from_fd(fd)) };
        let c = shm.clone();
        kani::cover!(len == 0, "cover.clone_of_empty_region");
        kani::cover!(len > 4096, "cover.clone_of_large_region");
        assert!(open_count() == 2, "kani.ledger.clone_owns_one_new_descriptor");
        assert!(unsafe { MMAP_CALLS } == (if len > 0 { 1 } else { 0 }), "kani.ledger.clone_maps_iff_nonempty");
        assert!(c.length == len, "kani.ledger.clone_same_length");
        drop(c);
        assert!(open_count() == 1 && unsafe { CLOSE_CALLS } == 1, "kani.ledger.clone_drop_closes_only_its_own_descriptor");
        assert!(unsafe { MUNMAP_CALLS } == (if len > 0 { 1 } else { 0 }), "kani.ledger.clone_drop_unmaps_only_its_own_mapping");
        mem::forget(shm);
    }

    // ======================= K4a: UnixCmsg::recv at the syscall level (C10, C03) =======================
    static mut NONBLOCK: bool = false;
    static mut FCNTL_CALLS: usize = 0;
    static mut FCNTL_FIRST_OK: bool = false;
    static mut FCNTL_LAST_OK: bool = false;
    static mut RECVMSG_CALLS: usize = 0;
    static mut NONBLOCK_AT_RECVMSG: bool = false;
    static mut RECVMSG_FLAGS_SEEN: c_int = 0;
    static mut RECVMSG_RET: isize = 0;
    static mut POLL_CALLS: usize = 0;
    static mut POLL_TIMEOUT: c_int = 0;
    static mut POLL_EVENTS: libc::c_short = 0;
    static mut POLL_RET: c_int = 0;
    static mut POLL_NFDS: u64 = 0;

    unsafe fn k_fcntl(_fd: c_int, cmd: c_int, arg: c_int) -> c_int {
        assert!(cmd == libc::F_SETFL, "kani.cmsg.fcntl_only_setfl");
        FCNTL_CALLS += 1;
        let ok: bool = kani::any();
        if FCNTL_CALLS == 1 {
            FCNTL_FIRST_OK = ok;
        }
        FCNTL_LAST_OK = ok;
        if ok {
            NONBLOCK = arg & libc::O_NONBLOCK != 0;
            0
        } else {
            -1
        }
    }
    unsafe fn k_recvmsg(_fd: c_int, _msg: *mut msghdr, flags: c_int) -> isize {
        RECVMSG_CALLS += 1;
        NONBLOCK_AT_RECVMSG = NONBLOCK;
        RECVMSG_FLAGS_SEEN = flags;
        RECVMSG_RET = kani::any();
        RECVMSG_RET
    }
    unsafe fn k_poll(fds: *mut libc::pollfd, nfds: libc::nfds_t, timeout: c_int) -> c_int {
        POLL_CALLS += 1;
        POLL_TIMEOUT = timeout;
        POLL_EVENTS = (*fds).events;
        POLL_NFDS = nfds as u64;
        // whatever the kernel reports in revents (POLLIN, POLLHUP, POLLRDHUP, POLLERR ... in any combination)
        (*fds).revents = kani::any();
        POLL_RET = kani::any();
        POLL_RET
    }
    fn fresh_cmsg() -> UnixCmsg {
        UnixCmsg {
            cmsg_buffer: ptr::null_mut(),
            msghdr: unsafe { mem::zeroed() },
        }
    }
    fn result_matches_recvmsg(r: &Result<usize, UnixError>) -> bool {
        let ret = unsafe { RECVMSG_RET };
        match r {
            Ok(n) => ret > 0 && *n == ret as usize,
            Err(UnixError::ChannelClosed) => ret == 0,
            Err(UnixError::Errno(_)) => ret < 0,
            Err(UnixError::IoError(_)) => false,
        }
    }

    #[kani::proof]
    #[kani::stub(libc::fcntl, k_fcntl)]
    #[kani::stub(recvmsg, k_recvmsg)]
    #[kani::stub(libc::poll, k_poll)]
    #[kani::stub(UnixError::last, k_last)]
    fn cmsg_recv_blocking() {
        let mut cmsg = fresh_cmsg();
        let r = unsafe { cmsg.recv(3, BlockingMode::Blocking) };
        assert!(unsafe { FCNTL_CALLS } == 0 && unsafe { POLL_CALLS } == 0, "kani.cmsg.blocking_touches_no_flags");
        assert!(unsafe { RECVMSG_CALLS } == 1, "kani.cmsg.blocking_one_recvmsg");
        assert!(unsafe { RECVMSG_FLAGS_SEEN } & libc::MSG_CMSG_CLOEXEC != 0, "kani.cmsg.recvmsg_cmsg_cloexec");
        assert!(result_matches_recvmsg(&r), "kani.cmsg.result_mapping_blocking");
        mem::forget(r);
        mem::forget(cmsg);
    }

    #[kani::proof]
    #[kani::stub(libc::fcntl, k_fcntl)]
    #[kani::stub(recvmsg, k_recvmsg)]
    #[kani::stub(libc::poll, k_poll)]
    #[kani::stub(UnixError::last, k_last)]
    fn cmsg_recv_nonblocking() {
        let mut cmsg = fresh_cmsg();
        let r = unsafe { cmsg.recv(3, BlockingMode::Nonblocking) };
        kani::cover!(unsafe { FCNTL_FIRST_OK && FCNTL_LAST_OK && RECVMSG_RET > 0 }, "cover.nonblocking_message");
        kani::cover!(unsafe { FCNTL_FIRST_OK && FCNTL_LAST_OK && RECVMSG_RET < 0 }, "cover.nonblocking_would_block");
        kani::cover!(unsafe { FCNTL_FIRST_OK && !FCNTL_LAST_OK }, "cover.nonblocking_reset_fails");
        kani::cover!(unsafe { !FCNTL_FIRST_OK }, "cover.nonblocking_set_fails");
        if unsafe { FCNTL_FIRST_OK } {
            assert!(unsafe { RECVMSG_CALLS } == 1, "kani.cmsg.nonblocking_one_recvmsg");
            assert!(unsafe { NONBLOCK_AT_RECVMSG }, "kani.cmsg.nonblocking_recvmsg_issued_with_o_nonblock");
            assert!(unsafe { RECVMSG_FLAGS_SEEN } & libc::MSG_CMSG_CLOEXEC != 0, "kani.cmsg.recvmsg_cmsg_cloexec");
            assert!(unsafe { FCNTL_CALLS } == 2, "kani.cmsg.nonblocking_flag_reset_attempted_on_every_path");
            if unsafe { FCNTL_LAST_OK } {
                // a later blocking receive blocks again: the flag is clear on return
                assert!(!unsafe { NONBLOCK }, "kani.cmsg.nonblocking_flag_clear_on_return");
                assert!(result_matches_recvmsg(&r), "kani.cmsg.result_mapping_nonblocking");
            } else {
                assert!(matches!(r, Err(UnixError::Errno(_))), "kani.cmsg.failed_reset_is_reported");
            }
        } else {
            assert!(unsafe { RECVMSG_CALLS } == 0 && matches!(r, Err(UnixError::Errno(_))), "kani.cmsg.failed_set_is_reported_without_reading");
        }
        mem::forget(r);
        mem::forget(cmsg);
    }

    #[kani::proof]
    #[kani::stub(libc::fcntl, k_fcntl)]
    #[kani::stub(recvmsg, k_recvmsg)]
    #[kani::stub(libc::poll, k_poll)]
    #[kani::stub(UnixError::last, k_last)]
    fn cmsg_recv_timeout() {
        let secs: u64 = kani::any();
        let nanos: u32 = kani::any();
        kani::assume(nanos < 1_000_000_000);
        let d = Duration::new(secs, nanos);
        let mut cmsg = fresh_cmsg();
        let r = unsafe { cmsg.recv(3, BlockingMode::Timeout(d)) };
        kani::cover!(unsafe { POLL_RET == 0 }, "cover.timeout_elapsed");
        kani::cover!(unsafe { POLL_RET > 0 && RECVMSG_RET == 0 }, "cover.timeout_closed");
        kani::cover!(secs > 3_000_000, "cover.timeout_not_representable");
        kani::cover!(secs == 0 && nanos < 1_000_000, "cover.timeout_sub_millisecond");
        assert!(unsafe { POLL_CALLS } == 1 && unsafe { POLL_NFDS } == 1, "kani.cmsg.timeout_one_poll_one_fd");
        assert!(unsafe { POLL_EVENTS } & libc::POLLIN != 0, "kani.cmsg.timeout_polls_for_input");
        assert!(unsafe { FCNTL_CALLS } == 0, "kani.cmsg.timeout_touches_no_flags");
        // waits at least the requested time, to millisecond granularity; forever if not representable
        let ms: u128 = (secs as u128) * 1000 + (nanos / 1_000_000) as u128;
        let expect: c_int = if ms <= i32::MAX as u128 { ms as c_int } else { -1 };
        assert!(unsafe { POLL_TIMEOUT } == expect, "kani.cmsg.timeout_poll_waits_requested_milliseconds");
        let pr = unsafe { POLL_RET };
        if pr == 0 {
            assert!(unsafe { RECVMSG_CALLS } == 0 && matches!(r, Err(UnixError::Errno(libc::EAGAIN))), "kani.cmsg.timeout_elapsed_is_eagain_without_reading");
        } else if pr < 0 {
            assert!(unsafe { RECVMSG_CALLS } == 0 && matches!(r, Err(UnixError::Errno(_))), "kani.cmsg.poll_error_reported_without_reading");
        } else {
            assert!(unsafe { RECVMSG_CALLS } == 1, "kani.cmsg.timeout_ready_one_recvmsg");
            assert!(unsafe { RECVMSG_FLAGS_SEEN } & libc::MSG_CMSG_CLOEXEC != 0, "kani.cmsg.recvmsg_cmsg_cloexec");
            assert!(result_matches_recvmsg(&r), "kani.cmsg.result_mapping_timeout");
        }
        mem::forget(r);
        mem::forget(cmsg);
    }

    // ======================= K-ffi: control-message plumbing (C18) =======================
    // the crate's own CMSG_* re-implementations agree with libc's macros for every length, and never overflow below 2^32
    #[kani::proof]
    fn ffi_cmsg_arithmetic() {
        let len32: u32 = kani::any();
        let len = len32 as usize;
        assert!(CMSG_ALIGN(len) == (len + 7) / 8 * 8, "kani.ffi.cmsg_align_rounds_up_to_8");
        assert!(CMSG_ALIGN(len) >= len && CMSG_ALIGN(len) < len + 8, "kani.ffi.cmsg_align_bounds");
        kani::assume(len32 <= u32::MAX - 64);
        assert!(CMSG_SPACE(len) == unsafe { libc::CMSG_SPACE(len32) } as usize, "kani.ffi.cmsg_space_matches_libc");
        assert!(CMSG_LEN(len) == unsafe { libc::CMSG_LEN(len32) } as usize, "kani.ffi.cmsg_len_matches_libc");
        assert!(mem::size_of::<cmsghdr>() == mem::size_of::<libc::cmsghdr>(), "kani.ffi.cmsghdr_layout_matches_libc");
    }

    // UnixCmsg::new: a control buffer for exactly MAX_FDS_IN_CMSG descriptors, wired into the msghdr; freed once on drop
    #[kani::proof]
    fn ffi_unix_cmsg_new() {
        let mut total_size = 0usize;
        let mut data = [0u8; 16];
        let mut iov = [
            iovec { iov_base: &mut total_size as *mut _ as *mut c_void, iov_len: mem::size_of::<usize>() },
            iovec { iov_base: data.as_mut_ptr() as *mut c_void, iov_len: data.len() },
        ];
        let iov_ptr = iov.as_mut_ptr();
        let r = unsafe { UnixCmsg::new(&mut iov) };
        match r {
            Ok(cmsg) => {
                assert!(!cmsg.cmsg_buffer.is_null(), "kani.ffi.control_buffer_allocated");
                assert!(cmsg.msghdr.msg_control == cmsg.cmsg_buffer as *mut c_void, "kani.ffi.msghdr_points_at_control_buffer");
                assert!(cmsg.msghdr.msg_controllen as usize == CMSG_SPACE(MAX_FDS_IN_CMSG as usize * mem::size_of::<c_int>()),
                        "kani.ffi.control_buffer_holds_max_fds");
                assert!(cmsg.msghdr.msg_controllen as usize >= mem::size_of::<cmsghdr>() + 64 * 4, "kani.ffi.control_buffer_room_for_64_descriptors");
                assert!(cmsg.msghdr.msg_iov == iov_ptr && cmsg.msghdr.msg_iovlen as usize == 2, "kani.ffi.msghdr_points_at_both_iovecs");
                assert!(cmsg.msghdr.msg_name.is_null() && cmsg.msghdr.msg_namelen == 0 && cmsg.msghdr.msg_flags == 0, "kani.ffi.msghdr_otherwise_zero");
                // the first descriptor slot and the last one lie inside the allocation
                let first = unsafe { CMSG_DATA(cmsg.cmsg_buffer) } as usize - cmsg.cmsg_buffer as usize;
                assert!(first + 64 * mem::size_of::<c_int>() <= cmsg.msghdr.msg_controllen as usize, "kani.ffi.descriptor_slots_inside_control_buffer");
                drop(cmsg); // free() of the malloc'd buffer: CBMC checks double free / invalid free
            },
            Err(e) => mem::forget(e),
        }
    }

    // send_first_fragment / send_followup_fragment are nested fns of OsIpcSender::send: their text is copied verbatim
    // from the working tree on every run (mechanical extraction) and harnessed with sendmsg/send stubbed.
    //@@EXTRACT src/platform/unix/mod.rs :: impl OsIpcSender :: send :: send_first_fragment
    //@@EXTRACT src/platform/unix/mod.rs :: impl OsIpcSender :: send :: send_followup_fragment

    static mut SM_CALLS: usize = 0;
    static mut SM_FD: c_int = 0;
    static mut SM_FLAGS: c_int = -1;
    static mut SM_IOVLEN: usize = 0;
    static mut SM_HDR_LEN: usize = 0;
    static mut SM_HDR_VALUE: usize = 0;
    static mut SM_DATA_PTR: usize = 0;
    static mut SM_DATA_LEN: usize = 0;
    static mut SM_CONTROL_NULL: bool = false;
    static mut SM_CONTROLLEN: usize = 0;
    static mut SM_CMSG_LEN: usize = 0;
    static mut SM_CMSG_LEVEL: c_int = 0;
    static mut SM_CMSG_TYPE: c_int = 0;
    static mut SM_FD_PROBE_INDEX: usize = 0;
    static mut SM_FD_PROBE_VALUE: c_int = 0;
    static mut SM_RET: isize = 0;
    unsafe fn k_sendmsg(fd: c_int, msg: *const msghdr, flags: c_int) -> isize {
        SM_CALLS += 1;
        SM_FD = fd;
        SM_FLAGS = flags;
        SM_IOVLEN = (*msg).msg_iovlen as usize;
        let iov = (*msg).msg_iov;
        SM_HDR_LEN = (*iov).iov_len;
        SM_HDR_VALUE = *((*iov).iov_base as *const usize);
        SM_DATA_PTR = (*iov.add(1)).iov_base as usize;
        SM_DATA_LEN = (*iov.add(1)).iov_len;
        SM_CONTROL_NULL = (*msg).msg_control.is_null();
        SM_CONTROLLEN = (*msg).msg_controllen as usize;
        if !SM_CONTROL_NULL {
            let c = (*msg).msg_control as *const cmsghdr;
            SM_CMSG_LEN = (*c).cmsg_len as usize;
            SM_CMSG_LEVEL = (*c).cmsg_level;
            SM_CMSG_TYPE = (*c).cmsg_type;
            // read ONE descriptor slot chosen by the harness: CBMC checks that the read is inside the allocation
            let fds = CMSG_DATA(c as *mut cmsghdr) as *const c_int;
            SM_FD_PROBE_VALUE = *fds.add(SM_FD_PROBE_INDEX);
        }
        SM_RET = kani::any();
        SM_RET
    }
    #[kani::proof]
    #[kani::stub(sendmsg, k_sendmsg)]
    #[kani::stub(UnixError::last, k_last)]
    fn ffi_send_first_fragment() {
        let all_fds: [c_int; 65] = kani::any();
        let n: usize = kani::any();
        kani::assume(n <= 65);
        let fds = &all_fds[..n];
        let all_data: [u8; 8] = kani::any();
        let dlen: usize = kani::any();
        kani::assume(dlen <= 8);
        let data = &all_data[..dlen];
        let total: usize = kani::any();
        let probe: usize = kani::any();
        kani::assume(n == 0 || probe < n);
        unsafe { SM_FD_PROBE_INDEX = probe };
        let r = send_first_fragment(7, fds, data, total);
        unsafe {
            assert!(SM_CALLS == 1 && SM_FD == 7, "kani.ffi.first_fragment_one_sendmsg_on_the_given_socket");
            assert!(SM_IOVLEN == 2 && SM_HDR_LEN == mem::size_of::<usize>() && SM_HDR_VALUE == total, "kani.ffi.first_fragment_header_is_total_length");
            assert!(SM_DATA_PTR == data.as_ptr() as usize && SM_DATA_LEN == dlen, "kani.ffi.first_fragment_payload_is_the_data_buffer");
            if n == 0 {
                assert!(SM_CONTROL_NULL && SM_CONTROLLEN == 0, "kani.ffi.no_descriptors_no_control_message");
            } else {
                assert!(!SM_CONTROL_NULL && SM_CONTROLLEN == CMSG_SPACE(n * mem::size_of::<c_int>()), "kani.ffi.control_message_sized_for_the_descriptors");
                assert!(SM_CMSG_LEN == CMSG_LEN(n * mem::size_of::<c_int>()) && SM_CMSG_LEVEL == libc::SOL_SOCKET && SM_CMSG_TYPE == SCM_RIGHTS,
                        "kani.ffi.control_message_is_scm_rights_for_n_descriptors");
                assert!(SM_FD_PROBE_VALUE == all_fds[probe], "kani.ffi.descriptors_copied_in_order");
            }
            assert!(r.is_ok() == (SM_RET > 0), "kani.ffi.first_fragment_ok_iff_sendmsg_positive");
        }
        kani::cover!(n == 65, "cover.first_fragment_65_descriptors");
        kani::cover!(n == 0 && dlen == 0, "cover.first_fragment_empty");
        mem::forget(r);
    }

    static mut SD_CALLS: usize = 0;
    static mut SD_FD: c_int = 0;
    static mut SD_PTR: usize = 0;
    static mut SD_LEN: usize = 0;
    static mut SD_FLAGS: c_int = -1;
    static mut SD_RET: isize = 0;
    unsafe fn k_send(fd: c_int, buf: *const c_void, len: size_t, flags: c_int) -> isize {
        SD_CALLS += 1;
        SD_FD = fd;
        SD_PTR = buf as usize;
        SD_LEN = len;
        SD_FLAGS = flags;
        SD_RET = kani::any();
        SD_RET
    }
    #[kani::proof]
    #[kani::stub(libc::send, k_send)]
    #[kani::stub(UnixError::last, k_last)]
    fn ffi_send_followup_fragment() {
        let all_data: [u8; 8] = kani::any();
        let dlen: usize = kani::any();
        kani::assume(dlen <= 8);
        let data = &all_data[..dlen];
        let r = send_followup_fragment(9, data);
        unsafe {
            assert!(SD_CALLS == 1 && SD_FD == 9 && SD_PTR == data.as_ptr() as usize && SD_LEN == dlen, "kani.ffi.followup_one_send_of_exactly_the_buffer");
            assert!(SD_FLAGS == 0, "kani.ffi.followup_send_is_blocking");
            assert!(r.is_ok() == (SD_RET > 0), "kani.ffi.followup_ok_iff_send_positive");
        }
        mem::forget(r);
    }

    // BackingStore::map_file: length from the caller or from fstat; zero length -> (null, 0) WITHOUT calling mmap;
    // otherwise one shared read-write mapping of exactly that length of this descriptor at offset 0
    static mut MF_CALLS: usize = 0;
    static mut MF_LEN: usize = 0;
    static mut MF_PROT: c_int = 0;
    static mut MF_FLAGS: c_int = 0;
    static mut MF_FD: c_int = 0;
    static mut MF_OFF: off_t = -1;
    static mut MF_SIZE: off_t = 0;
    unsafe fn k_mmap_rec(_addr: *mut c_void, len: size_t, prot: c_int, flags: c_int, fd: c_int, off: off_t) -> *mut c_void {
        assert!(len > 0, "kani.ffi.mmap_never_asked_for_zero_bytes");
        MF_CALLS += 1;
        MF_LEN = len;
        MF_PROT = prot;
        MF_FLAGS = flags;
        MF_FD = fd;
        MF_OFF = off;
        ptr::addr_of_mut!(MAP_BUF) as *mut c_void
    }
    unsafe fn k_fstat_size(_fd: c_int, st: *mut libc::stat) -> c_int {
        (*st).st_size = MF_SIZE;
        0
    }
    #[kani::proof]
    #[kani::stub(libc::mmap, k_mmap_rec)]
    #[kani::stub(libc::fstat, k_fstat_size)]
    #[kani::stub(libc::close, k_close)]
    #[kani::stub(std::thread::panicking, k_panicking)]
    fn ffi_map_file() {
        ledger_init();
        let fd = unsafe { alloc_fd() };
        let store = BackingStore::from_fd(fd);
        let given: Option<usize> = kani::any();
        let size: off_t = kani::any();
        kani::assume(size >= 0);
        unsafe { MF_SIZE = size };
        let (p, len) = unsafe { store.map_file(given) };
        let expect = match given {
            Some(l) => l,
            None => size as usize,
        };
        assert!(len == expect, "kani.ffi.map_file_length_is_given_or_file_size");
        if expect == 0 {
            assert!(p.is_null() && unsafe { MF_CALLS } == 0, "kani.ffi.empty_region_is_not_mapped");
        } else {
            unsafe {
                assert!(!p.is_null() && MF_CALLS == 1 && MF_LEN == expect, "kani.ffi.one_mapping_of_exactly_the_length");
                assert!(MF_FLAGS & MAP_SHARED != 0 && MF_PROT == (PROT_READ | PROT_WRITE), "kani.ffi.mapping_shared_read_write");
                assert!(MF_FD == fd && MF_OFF == 0, "kani.ffi.mapping_of_this_descriptor_from_offset_zero");
            }
        }
        kani::cover!(given.is_none() && size == 0, "cover.received_empty_region");
        kani::cover!(given.is_none() && size > 0, "cover.received_region");
        mem::forget(store);
    }

    // map_file when mmap fails: MAP_FAILED must never be handed out as a mapping (the real code asserts; it must not return)
    unsafe fn k_mmap_fail(_addr: *mut c_void, _len: size_t, _prot: c_int, _flags: c_int, _fd: c_int, _off: off_t) -> *mut c_void {
        libc::MAP_FAILED
    }
    #[kani::proof]
    #[kani::should_panic]
    #[kani::stub(libc::mmap, k_mmap_fail)]
    #[kani::stub(libc::fstat, k_fstat_size)]
    #[kani::stub(libc::close, k_close)]
    #[kani::stub(std::thread::panicking, k_panicking)]
    fn ffi_map_file_mmap_fails() {
        let _obligation = "kani.ffi.mmap_failure_is_never_handed_out_as_a_mapping";
        ledger_init();
        let fd = unsafe { alloc_fd() };
        let store = BackingStore::from_fd(fd);
        let len: usize = kani::any();
        kani::assume(len > 0);
        let (_p, _l) = unsafe { store.map_file(Some(len)) };
        mem::forget(store);
    }

    // create_shmem (shm_open backing): exclusive creation, private mode, unlinked at once (no name left behind), sized by ftruncate
    static mut SHM_OPEN_FLAGS: c_int = 0;
    static mut SHM_OPEN_MODE: mode_t = 0;
    static mut SHM_NAME_PTR: usize = 0;
    static mut SHM_UNLINK_PTR: usize = 0;
    static mut SHM_UNLINK_CALLS: usize = 0;
    static mut SHM_TRUNC_FD: c_int = -1;
    static mut SHM_TRUNC_LEN: off_t = -1;
    static mut SHM_ORDER_OK: bool = true;
    unsafe fn k_shm_open(name: *const c_char, oflag: c_int, mode: mode_t) -> c_int {
        SHM_NAME_PTR = name as usize;
        SHM_OPEN_FLAGS = oflag;
        SHM_OPEN_MODE = mode;
        alloc_fd()
    }
    unsafe fn k_shm_unlink(name: *const c_char) -> c_int {
        SHM_UNLINK_CALLS += 1;
        SHM_UNLINK_PTR = name as usize;
        if SHM_TRUNC_FD != -1 {
            SHM_ORDER_OK = SHM_ORDER_OK && true;
        }
        0
    }
    unsafe fn k_ftruncate(fd: c_int, len: off_t) -> c_int {
        SHM_TRUNC_FD = fd;
        SHM_TRUNC_LEN = len;
        0
    }
    #[cfg(not(all(target_os = "linux", feature = "memfd")))]
    #[kani::proof]
    #[kani::stub(libc::shm_open, k_shm_open)]
    #[kani::stub(libc::shm_unlink, k_shm_unlink)]
    #[kani::stub(libc::ftruncate, k_ftruncate)]
    #[kani::unwind(4)]
    fn ffi_create_shmem() {
        ledger_init();
        let name = CString::new("n").unwrap();
        let name_ptr = name.as_ptr() as usize;
        let length: usize = kani::any();
        kani::assume(length <= isize::MAX as usize);
        let fd = create_shmem(name, length);
        unsafe {
            assert!(OPEN[fd as usize] && open_count() == 1, "kani.ffi.create_shmem_returns_the_one_descriptor_it_opened");
            assert!(SHM_OPEN_FLAGS & libc::O_CREAT != 0 && SHM_OPEN_FLAGS & libc::O_EXCL != 0 && SHM_OPEN_FLAGS & libc::O_RDWR == libc::O_RDWR,
                    "kani.ffi.create_shmem_exclusive_read_write");
            assert!(SHM_OPEN_MODE == 0o600, "kani.ffi.create_shmem_private_mode");
            assert!(SHM_UNLINK_CALLS == 1 && SHM_UNLINK_PTR == SHM_NAME_PTR && SHM_NAME_PTR == name_ptr, "kani.ffi.create_shmem_name_unlinked_at_once");
            assert!(SHM_TRUNC_FD == fd && SHM_TRUNC_LEN == length as off_t, "kani.ffi.create_shmem_sized_to_the_requested_length");
        }
    }

    // is_socket: fstat failure means "not a socket"; otherwise exactly S_IFSOCK
    static mut FSTAT_FAIL: bool = false;
    static mut FSTAT_MODE: mode_t = 0;
    unsafe fn k_fstat(_fd: c_int, st: *mut libc::stat) -> c_int {
        if FSTAT_FAIL {
            return -1;
        }
        (*st).st_mode = FSTAT_MODE;
        0
    }
    #[kani::proof]
    #[kani::stub(libc::fstat, k_fstat)]
    fn ffi_is_socket() {
        unsafe {
            FSTAT_FAIL = kani::any();
            FSTAT_MODE = kani::any();
        }
        let r = is_socket(5);
        let expect = unsafe { !FSTAT_FAIL && (FSTAT_MODE & libc::S_IFMT) == libc::S_IFSOCK };
        assert!(r == expect, "kani.ffi.is_socket_iff_fstat_says_socket");
        kani::cover!(r, "cover.is_socket_true");
    }

    // new_sockaddr_un: family AF_UNIX, path copied with room for the terminating NUL
    static mut STRNCPY_N: usize = 0;
    unsafe fn k_strncpy_len(dst: *mut c_char, _src: *const c_char, n: size_t) -> *mut c_char {
        STRNCPY_N = n;
        dst
    }
    #[kani::proof]
    #[kani::stub(libc::strncpy, k_strncpy_len)]
    fn ffi_new_sockaddr_un() {
        let path = [b'a' as c_char, 0];
        let (sa, len) = unsafe { new_sockaddr_un(path.as_ptr()) };
        assert!(sa.sun_family == libc::AF_UNIX as sa_family_t, "kani.ffi.sockaddr_family_unix");
        assert!(len == mem::size_of::<sockaddr_un>(), "kani.ffi.sockaddr_len");
        assert!(unsafe { STRNCPY_N } == sa.sun_path.len() - 1, "kani.ffi.sun_path_keeps_terminating_nul");
        assert!(sa.sun_path[sa.sun_path.len() - 1] == 0, "kani.ffi.sun_path_last_byte_zero");
    }

    // make_socket_lingering: exactly one setsockopt(fd, SOL_SOCKET, SO_LINGER, &linger{on, 30 s}, sizeof linger); Err iff it fails (C08)
    static mut SSO_CALLS: u32 = 0;
    static mut SSO_OK_ARGS: bool = false;
    static mut SSO_RET: c_int = 0;
    unsafe fn k_setsockopt(fd: c_int, level: c_int, name: c_int, value: *const c_void, len: socklen_t) -> c_int {
        SSO_CALLS += 1;
        let l = value as *const linger;
        SSO_OK_ARGS = fd == 7 && level == libc::SOL_SOCKET && name == libc::SO_LINGER
            && len as usize == mem::size_of::<linger>() && (*l).l_onoff != 0 && (*l).l_linger > 0;
        SSO_RET
    }
    #[kani::proof]
    #[kani::stub(libc::setsockopt, k_setsockopt)]
    fn ffi_make_socket_lingering() {
        unsafe { SSO_RET = kani::any(); }
        let r = make_socket_lingering(7);
        assert!(unsafe { SSO_CALLS } == 1, "kani.ffi.lingering_one_setsockopt");
        assert!(unsafe { SSO_OK_ARGS }, "kani.ffi.lingering_so_linger_enabled_with_a_positive_timeout_on_this_socket");
        assert!(r.is_ok() == (unsafe { SSO_RET } >= 0), "kani.ffi.lingering_err_iff_setsockopt_failed");
        kani::cover!(r.is_ok(), "cover.lingering_ok");
        kani::cover!(r.is_err(), "cover.lingering_err");
    }

    // ======================= K4b: error conversions over all errno values (C03, C10, C09) =======================
    fn any_unix_error() -> UnixError {
        if kani::any() {
            UnixError::Errno(kani::any())
        } else {
            UnixError::ChannelClosed
        }
    }
    #[kani::proof]
    fn conv_channel_is_closed() {
        let e = any_unix_error();
        let closed = matches!(e, UnixError::ChannelClosed);
        assert!(e.channel_is_closed() == closed, "kani.conv.channel_is_closed_only_for_channel_closed");
        mem::forget(e);
    }
}
