#!/usr/bin/env python3
"""Regenerate MANIFEST.json from the table below (keeps it valid at all times)."""
import json, os
HERE = os.path.dirname(os.path.abspath(__file__))
BASE_OFF = "cd /repo && cargo nextest run --workspace --no-fail-fast --tool-config-file pb:/w/lib/nextest.toml --profile pb --test-threads 8 --offline"

KERNEL = ("Trusted: the ghost kernel model of DESIGN.md 1.2 (SOCK_SEQPACKET whole-packet FIFO, socketpair freshness, "
          "recv truncation), the libc-boundary stubs that replace FFI-plumbing functions, vstd, Verus/Z3, x86_64 layout "
          "(size_of usize == 8); the evidence file lists every external_body / assume_specification mechanically.")

CLAIMED = {
 "C13": dict(text="Unbounded deductive proof (Verus) on the extracted real body of OsIpcSender::send + nested downsize: for every payload length, every SYSTEM_SENDBUF_SIZE >= 48 and a nondeterministic failure at every transmission attempt, Ok(()) implies exactly the message with all attachments is on the wire once, every failed attempt that was retried was ENOBUFS on a >2000-byte packet, every (re)try fits the receiver's buffers, and the retry loop terminates.",
             design="DESIGN.md 3/U2, 4/C13", technique="Verus function contracts + loop invariants on mechanically extracted real code"),
 "C15": dict(text="Verus: the call-site obligation fds.len() <= MAX_FDS_IN_CMSG at both send_first_fragment calls of the real OsIpcSender::send, and the postcondition 'more than 64 attachments => Err and nothing transmitted; Ok => all attachments in the first packet'.",
             design="DESIGN.md 3/U2, 4/C15", technique="Verus call-site preconditions and postcondition on extracted real code"),
 "C01": dict(text="Unbounded deductive proof (Verus) on the extracted real bodies of OsIpcSender::send (+downsize, fragment arithmetic) and unix::recv against a ghost kernel model, plus a composition lemma: for every payload length, every SYSTEM_SENDBUF_SIZE >= 48, every split the sender chooses and every ENOBUFS pattern, what recv returns is byte-for-byte what send was given. bincode's own round trip, the in-process backend (crossbeam) and the macOS/Windows back ends (not compiled here) are outside.",
             design="DESIGN.md 3/U2 U3 U23, 4/C01", technique="Verus contracts + loop invariants on extracted real send/recv; round-trip lemma over the two contracts"),
 "C02": dict(text="The schedule quantifier is reduced to one stated kernel assumption (per-socket FIFO of whole packets); the library-side premises are proved unboundedly on the real code: one successful send = exactly one packet on the shared socket, all follow-ups on a socket created inside that call; a failed send adds at most that one packet; one recv consumes exactly one shared-socket packet and reads follow-ups only from the descriptor carried by that packet; lemma: a later send by anyone leaves a queued emission and the FIFO head intact (no mixing).",
             design="DESIGN.md 3/U2 U3 U23, 4/C02", technique="Verus postconditions (frame over the ghost kernel) + composition lemmas"),
 "C04": dict(text="Verus on the real code: descriptor order on the wire is channels, regions, dedicated receiver (send); recv splits by is_socket preserving order and removes exactly the dedicated one; OsOpaqueIpcChannel::{to_sender,to_receiver} move the descriptor out (slot := -1); lemma: the lists recv returns are the lists send was given. The ipc.rs index<->position layer is unit U7. That a passed descriptor denotes the same kernel object with its backlog is a kernel assumption.",
             design="DESIGN.md 3/U2 U3 U7, 4/C04", technique="Verus loop invariants over an order-preserving split spec; composition lemma"),
 "C12": dict(text="The crash-point quantifier becomes a universal over wire states: unix::recv is proved (Verus, unbounded) for a head packet followed by ANY prefix of its follow-ups: Ok only if the emission is complete and then with exactly hdr bytes all written by the kernel; a complete emission is never answered with ChannelClosed; reassembly terminates (EOF ends it). The obligation 'ChannelClosed only for EOF on the channel's own socket' fails on the current tree and is recorded as a known finding.",
             design="DESIGN.md 3/U3, 4/C12, 5", technique="Verus precondition admitting every crash-prefix + postconditions on extracted real recv"),
 "C18": dict(text="Verus on the real bodies: every slice/index in send, every Vec::set_len <= capacity, every control-buffer read inside the 64-descriptor buffer, no arithmetic overflow/underflow, both assert!s and pop().unwrap() in recv, CMSG_ALIGN arithmetic; set_len is specified to leave new bytes unspecified, so the proved equality of the result with the sender's bytes implies every byte was written by the transport. FFI-plumbing bodies (send_first_fragment's malloc/copy, UnixCmsg::new) are trusted stubs, listed in the evidence.",
             design="DESIGN.md 3/U1 U2 U3, 4/C18", technique="Verus auto-obligations (overflow, bounds, unwrap, assert!) + std safety contracts as call-site preconditions"),
 "C10": dict(text="Part of the property, proved on the real unix::recv (Verus): follow-up fragments are always read with flags == 0 (blocking) whatever the mode, so a started message is finished; with nothing queued recv returns Err and consumes nothing. Kani on the real UnixCmsg::recv with fcntl/poll/recvmsg stubbed and ALL return values symbolic (loop-free, complete): Nonblocking issues exactly one recvmsg with O_NONBLOCK set and the flag is clear again on return on every path; Timeout(d) polls once for POLLIN with timeout == d in whole milliseconds (-1 if not representable), reports EAGAIN without reading iff poll returned 0; result mapping Ok/ChannelClosed/Errno; Verus: Empty iff EAGAIN/EWOULDBLOCK.",
             design="DESIGN.md 3/U3 U4, 4/C10", technique="Verus call-site precondition on the recv stub (flags) + postcondition"),
 "C14": dict(text="Verus on the real IpcSender::send and OpaqueIpcMessage::to after thread-local elimination (the four RefCell lists become fields of an explicit &mut Tls): on EVERY exit path the four lists equal their entry values, and messages already handed to the OS layer are never retracted; the serialiser stub's contract (lists only grow; complete nested sends allowed) is exactly what send's own postcondition re-establishes, so nesting is covered inductively; serialize_os_ipc_sender/receiver and IpcSharedMemory::serialize push exactly one entry and leave the rest alone.",
             design="DESIGN.md 3/U7, 4/C14", technique="Verus frame postconditions on every exit of extracted real code (thread-locals made explicit)",
             note="Trusted: serde/bincode and user Serialize/Deserialize impls obey ser_step/de_step; RefCell's dynamic double-borrow panic and thread identity are not modelled; the platform send is a stub that logs what it is handed."),
 "C16": dict(text="Part of the property, Verus on the real deserialize_os_ipc_sender/receiver, IpcSharedMemory::deserialize and OpaqueIpcMessage::to with an ARBITRARY decoded index: no index/unwrap panic (auto-obligations), the endpoint returned is an attachment of this very message, the side tables are restored before the result is looked at. Open known finding: a channel index used twice. bincode's own behaviour on corrupt bytes is outside; release of unclaimed descriptors is OsOpaqueIpcChannel::drop (Kani ledger when present).",
             design="DESIGN.md 3/U7, 4/C16, 5", technique="Verus auto-obligations (bounds, unwrap) + postconditions on extracted real code, arbitrary index",
             note="Trusted: serde/bincode stubs; thread-locals modelled as explicit &mut Tls."),
 "C05": dict(text="Verus on the real shared-memory functions against a ghost file/mapping model: OsIpcSharedMemory::from_bytes reads back exactly the bytes (every length incl. 0 and non-page multiples), from_byte reads back the fill, clone has the same length and bytes over its own descriptor and mapping, from_fd maps the whole file, deref returns exactly the mapped bytes and never builds a slice from a null pointer, drop unmaps exactly its own mapping; IpcSharedMemory::{from_bytes, from_byte, deref, empty} on top of them; region order through send/recv (U2/U3/U23) and the region index<->position layer (U7). That mmap(MAP_SHARED) of one file object shows the same bytes in every process is the kernel assumption.",
             design="DESIGN.md 3/U8, 4/C05", technique="Verus representation invariant (wf) + postconditions over a ghost file/mapping model on extracted real code",
             note="Trusted: shm_open/ftruncate/mmap/munmap/fcntl(F_DUPFD_CLOEXEC) stubs, the fill loop of from_byte (elision E4: replaced by a stub stating exactly the fill), raw copy (E5) and slice::from_raw_parts (E6) stubs carrying std's safety contracts."),
 "C06": dict(text="Part of the property, Verus on the real OsIpcReceiverSet::{add, select}: ids are fresh and strictly increasing (no two live members share one); a representation invariant ties the map, the epoll interest list and the owned descriptors; every message/closure a member's non-blocking receive yields is reported exactly once, in order, under the id add returned; every member reported ready is drained until EWOULDBLOCK or closed (what edge-triggered polling needs); a closed member is removed, deregistered and closed exactly once; EINTR never makes select return empty-handed; the expect/unwrap/assert! are total. That epoll eventually reports every ready member, and interleavings with sender threads, are assumed.",
             design="DESIGN.md 3/U5, 4/C06", technique="Verus representation invariant + loop invariants/ensures over a ghost event log on extracted real code",
             note="Trusted: mio Poll/Events/Token stand-ins (epoll batch: <=10 distinct registered readable tokens; edge-triggered), unix::recv stub (contract proved in U3/K4), HashMap specs of vstd with an assumed key model for Token, id counter not exhausted."),
 "C07": dict(text="Verus on the real Router::run with ghost logs: every MessageReceived(id, m) the receiver set reports for a route is passed exactly once, in report order, to the handler registered under id (calls == delivered, as an invariant of both loops); the handler lookup cannot fail; a handler is removed exactly on ChannelClosed(id) and no handler outlives its channel. The body of the crossbeam-forwarding closure is verified as a function (each decodable routed message is forwarded exactly once while the receiver lives; dropping the receiver never panics); the proxy sends exactly one message per wake-up (U6b). The receiver set's own behaviour is unit U5; cross-thread registration rests on the one mutex. Open known finding: an undecodable message panics the router thread.",
             design="DESIGN.md 3/U6, 4/C07", technique="Verus loop invariants over ghost delivery/invocation logs on extracted real code",
             note="Trusted: IpcReceiverSet stub (ids are members, none after ChannelClosed, ids never reused), wake-up/RouterMsg pairing, the handler-call stub router_invoke (D5), HashMap specs of vstd."),
 "C17": dict(text="Verus on the real Router::run: '!acked' is an invariant of the service loop (no select, no handler call, no registration after the acknowledgement: call-site obligations), every callback has been dropped when the acknowledgement is sent (ghost count at the ack stub == 0), run leaves no callback behind when it stops by shutdown or proxy drop, and both unwraps / the expect are total. Racing shutdown/add_route callers are argued only from 'one mutex, never taken by run'.",
             design="DESIGN.md 3/U6, 4/C17, 5", technique="Verus invariants + call-site preconditions (ghost 'acked' flag) on extracted real code",
             note="Trusted: as C07; the proxy is blocked on the acknowledgement channel when the ack is sent; termination of the service loop is not claimed (exec_allows_no_decreases_clause)."),
 "C11": dict(text="Part of the property: per-operation ownership contracts 'created - closed = owned by the returned handles' proved by Kani on the REAL functions (real drop elaboration) with socket/socketpair/connect/close/munmap replaced by a descriptor ledger: channel() both outcomes, OsIpcSender::connect with connect(2)/socket(2) failing nondeterministically, OsIpcReceiver::consume + drops, OsIpcSender clone x2 + drops (one close, at the last drop), OsOpaqueIpcChannel converted/unconverted + drop, OsIpcSharedMemory drop (munmap iff mapped, one close); SOCK_CLOEXEC / MSG_CMSG_CLOEXEC asserted in the stubs; never close(-1), never twice. Loop-free harnesses over fully symbolic syscall outcomes: complete, not bounded. Verus on the extracted real code adds: OsIpcOneShotServer::{new, accept, drop} and OsIpcSender::connect with every system call free to fail (no descriptor left unowned on any path, the owner's Drop closes exactly its own descriptor), OsIpcReceiverSet::add (descriptor stays with its receiver on failure), select (a closed member is closed exactly once) and OsIpcReceiverSet::drop (every member closed exactly once, nothing else), OsIpcSharedMemory drop/clone (U8). NOT covered: send's dedicated pair and recv's error paths (Drop is invisible to Verus), the router's handles, removal of temp files (tempfile's TempDir).",
             design="DESIGN.md 3/K-ledger, 4/C11", technique="Kani loop-free harnesses on the real crate with libc stubbed by a descriptor ledger + Verus ledger contracts on extracted real code",
             note="Trusted: the ledger stubs (fresh descriptors, close succeeds), Kani/CBMC; histories are covered only through composition of the per-operation contracts."),
 "C03": dict(text="Part of the property (mechanisms, not the history quantifier): Verus on the real conversions - TryRecvError::Empty iff Errno(EAGAIN|EWOULDBLOCK), Disconnected iff UnixError::ChannelClosed (TryRecvError and IpcError), channel_is_closed() only for ChannelClosed; Kani on the real UnixCmsg::recv - ChannelClosed iff recvmsg returned 0, for all three blocking modes; Kani ledger - the shared descriptor of cloned senders is closed once, at the last drop; Verus on unix::recv - ChannelClosed only for EOF on the channel's own socket (open known finding, shared with C12). That the kernel reports EOF exactly when no descriptor (in flight or not) refers to the peer is assumed; clone/embed/drop races are not addressed.",
             design="DESIGN.md 3/U3 U4 K-ledger, 4/C03", technique="Verus postconditions on extracted conversions + Kani loop-free harnesses on the real crate"),
 "C09": dict(text="Verus, part of the property: on the real OsIpcSender::send every transmission failure that is not a recoverable ENOBUFS is returned as Err (ghost attempt log), a failed send leaves at most one packet on the shared socket, and the retry loop terminates for every error pattern. That the kernel reports EPIPE/ECONNRESET and raises no SIGPIPE is assumed.",
             design="DESIGN.md 3/U2, 4/C09", technique="Verus postconditions over a ghost transmission log"),
 "C20": dict(text="Part of the property (the library's own glue, not futures' channels or the scheduler), Verus on the real text of src/asynch.rs: (1) the routing thread's closure body, verified as a function with ghost logs - every MessageReceived(id, m) the receiver set reports for a registered channel is passed exactly once, in report order, to the futures sender that was queued together with that receiver and to no other (forwarded == fwd(delivered), an invariant of all three loops); every live member has its sender, a sender is dropped exactly on ChannelClosed(id) (so the stream ends after its last message) and none outlives its channel; after every select batch every queued route has been taken and registered before the next select; (2) IpcReceiver::to_stream queues (receiver, fresh channel's sender) and only then wakes the thread, and returns the stream reading that same channel; (3) IpcStream::poll_next polls the forwarding channel exactly once with the caller's context and yields exactly what it yields (Pending/End/message decoded). Assumed: futures mpsc (FIFO, lossless, wakes the registered task, ends when senders are gone), the receiver set (C06/U5), epoll registration of the wake-up receiver succeeds, thread scheduling.",
             design="DESIGN.md 3/U11, 4/C20", technique="Verus loop invariants over ghost delivery/forwarding logs on the mechanically extracted closure body and methods",
             note="Trusted: IpcReceiverSet / futures mpsc / Mutex / wake-up sender stand-ins listed in the evidence; the closure body and poll_next are verified under a unit-supplied signature (BlockFn: the text between the braces is copied verbatim); termination of the service loop is not claimed."),
 "C08": dict(text="Part of the property (what the library's own code contributes to the rendezvous), Verus on the real OsIpcOneShotServer::{new, accept} and OsIpcSender::connect against a ghost ledger of descriptors and rendezvous facts, with every system call free to fail: new() returns as the name exactly the path the listening socket is bound to, listens with a queue of at least one so a client may connect before accept, keeps the socket file inside the temp dir the server value owns (whose Drop removes it), and on failure leaves no descriptor behind; accept() takes one connection from this server's own listening socket, sets SO_LINGER on it, returns a receiver that owns exactly that connection, and the data/channels/regions it returns are those of the first - and only - blocking receive on that connection; connect(name) connects to the path the name denotes and on failure leaves nothing behind. Kani (k_ffi) proves new_sockaddr_un's strncpy stays inside sun_path. That the kernel queues a connecting client until accept, keeps queued data after the client's exit, that tempfile names are distinct and TempDir::drop removes the directory are assumptions; the Drop of OsIpcOneShotServer (one close) is not seen by Verus.",
             design="DESIGN.md 3/U9, 4/C08", technique="Verus postconditions over a ghost rendezvous ledger on extracted real code; every syscall stub may fail",
             note="Trusted: socket/bind/listen/accept4/connect/setsockopt/close stubs, tempfile/Path/CString stand-ins carrying a path identity, unix::recv stub (contract proved in U3)."),
}

NOT_APPLICABLE = {
 "C19": "differential property over three builds and arbitrary programs; no per-function contract expresses it",
}
PENDING = {}

def main():
    allp = [json.loads(l)["id"] for l in open(os.path.join(HERE, "properties.jsonl"))]
    checks = []
    for pid in allp:
        if pid in CLAIMED:
            c = CLAIMED[pid]
            checks.append({
                "property_id": pid,
                "quick_cmd": "./check %s --tier quick" % pid,
                "thorough_cmd": "./check %s --tier thorough" % pid,
                "evidence_file": "/verif/evidence/%s.json" % pid,
                "replay_cmd_template": "./check %s --replay {path}" % pid,
                "engine": "contracts",
                "level_claimed": {"category": "proof", "text": c["text"], "design_ref": c["design"]},
                "level_note": c.get("note", KERNEL),
                "technique": c["technique"],
            })
    na = []
    for pid in allp:
        if pid in CLAIMED:
            continue
        reason = NOT_APPLICABLE.get(pid) or PENDING.get(pid) or "no contract-based check built for this property (yet); not claimed"
        na.append({"property_id": pid, "reason": reason})
    m = {
        "version": 1,
        "setup_cmd": "python3 -m compileall -q vf units check >/dev/null 2>&1; true",
        "hooks": {"guard": "ipc_channel_verif", "enable": "none needed: checks extract functions from /repo's working tree; Kani harness modules are appended to a scratch copy only",
                  "baseline_off_cmd": BASE_OFF, "source_commits": [], "add_only": True},
        "engines": [
            {"name": "contracts", "path": "/verif/check", "serves_properties": sorted(CLAIMED),
             "kind_free_text": "mechanical extraction of real functions from /repo + spliced contracts -> Verus (unbounded); loop-free Kani harnesses on a scratch copy of the real crate"},
        ],
        "checks": checks,
        "not_applicable": na,
        "notes": "exit 2 from a check means undecided (lost extraction anchor, construct outside the dialect, solver limit, vacuity guard) and never prints a VIOLATION line. Known findings and fixed defects: /verif/known_findings.json.",
    }
    json.dump(m, open(os.path.join(HERE, "MANIFEST.json"), "w"), indent=1)

if __name__ == "__main__":
    main()
