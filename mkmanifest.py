#!/usr/bin/env python3
"""Regenerate MANIFEST.json from the table below (keeps it valid at all times)."""
import json, os
HERE = os.path.dirname(os.path.abspath(__file__))
BASE_OFF = "cd /repo && cargo nextest run --workspace --no-fail-fast --tool-config-file pb:/w/lib/nextest.toml --profile pb --test-threads 8 --offline"

KERNEL = ("Trusted: the ghost kernel model of DESIGN.md 1.2 (SOCK_SEQPACKET whole-packet FIFO, socketpair freshness, "
          "recv truncation), the libc-boundary stubs that replace FFI-plumbing functions, vstd, Verus/Z3, x86_64 layout "
          "(size_of usize == 8); the evidence file lists every external_body / assume_specification mechanically.")

CLAIMED = {
 "C13": dict(text="Unbounded deductive proof (Verus) on the extracted real body of OsIpcSender::send + nested downsize: for every payload length, every SYSTEM_SENDBUF_SIZE >= 48 and a nondeterministic failure at every transmission attempt, Ok(()) implies exactly the message with all attachments is on the wire once, every failed attempt that was retried was ENOBUFS on a >2000-byte packet, every (re)try fits the receiver's buffers, and the retry loop terminates.",
             design="DESIGN.md 3/U2, 4/C13", technique="Verus function contracts + loop invariants on mechanically extracted real code"),
 "C15": dict(text="Verus: the call-site obligation fds.len() <= MAX_FDS_IN_CMSG at both send_first_fragment calls of the real OsIpcSender::send, and the postcondition 'more than 64 attachments => Err and nothing transmitted; Ok => all attachments in the first packet'.",
             design="DESIGN.md 3/U2, 4/C15", technique="Verus call-site preconditions and postcondition on extracted real code"),
 "C09": dict(text="Verus, part of the property: on the real OsIpcSender::send every transmission failure that is not a recoverable ENOBUFS is returned as Err (ghost attempt log), a failed send leaves at most one packet on the shared socket, and the retry loop terminates for every error pattern. That the kernel reports EPIPE/ECONNRESET and raises no SIGPIPE is assumed.",
             design="DESIGN.md 3/U2, 4/C09", technique="Verus postconditions over a ghost transmission log"),
}

NOT_APPLICABLE = {
 "C08": "rendezvous through the filesystem, kernel listen queue, tempfile's RNG and TempDir's Drop: straight-line FFI with nothing a function contract can state; Verus does not see Drop",
 "C19": "differential property over three builds and arbitrary programs; no per-function contract expresses it",
 "C20": "feature-gated async glue over futures channels and a lazily spawned thread: wake-ups and schedules only",
}
PENDING = {}

def main():
    allp = [json.loads(l)["id"] for l in open(os.path.join(HERE, "properties.jsonl"))]
    checks = []
    for pid in allp:
        if pid in CLAIMED:
            c = CLAIMED[pid]
            checks.append({
                "property_id": pid,
                "quick_cmd": "./check %s --tier quick" % pid,
                "thorough_cmd": "./check %s --tier thorough" % pid,
                "evidence_file": "/verif/evidence/%s.json" % pid,
                "replay_cmd_template": "./check %s --replay {path}" % pid,
                "engine": "contracts",
                "level_claimed": {"category": "proof", "text": c["text"], "design_ref": c["design"]},
                "level_note": c.get("note", KERNEL),
                "technique": c["technique"],
            })
    na = []
    for pid in allp:
        if pid in CLAIMED:
            continue
        reason = NOT_APPLICABLE.get(pid) or PENDING.get(pid) or "no contract-based check built for this property (yet); not claimed"
        na.append({"property_id": pid, "reason": reason})
    m = {
        "version": 1,
        "setup_cmd": "python3 -m compileall -q vf units check >/dev/null 2>&1; true",
        "hooks": {"guard": "ipc_channel_verif", "enable": "none needed: checks extract functions from /repo's working tree; Kani harness modules are appended to a scratch copy only",
                  "baseline_off_cmd": BASE_OFF, "source_commits": [], "add_only": True},
        "engines": [
            {"name": "contracts", "path": "/verif/check", "serves_properties": sorted(CLAIMED),
             "kind_free_text": "mechanical extraction of real functions from /repo + spliced contracts -> Verus (unbounded); loop-free Kani harnesses on a scratch copy of the real crate"},
        ],
        "checks": checks,
        "not_applicable": na,
        "notes": "exit 2 from a check means undecided (lost extraction anchor, construct outside the dialect, solver limit, vacuity guard) and never prints a VIOLATION line. Known findings and fixed defects: /verif/known_findings.json.",
    }
    json.dump(m, open(os.path.join(HERE, "MANIFEST.json"), "w"), indent=1)

if __name__ == "__main__":
    main()
