// demonstration for C09: a receiver that vanishes while a multi-packet send is in progress
// must make send() fail, not block forever.
use ipc_channel::ipc;
use std::sync::mpsc;
use std::time::Duration;

#[test]
fn send_fails_when_receiver_vanishes_mid_message() {
    let (tx, rx) = ipc::bytes_channel().unwrap();
    let (done_tx, done_rx) = mpsc::channel();
    let sender = std::thread::spawn(move || {
        // far more than the socket buffers hold: blocks while writing follow-up fragments
        let big = vec![0x5au8; 64 << 20];
        let r = tx.send(&big);
        let _ = done_tx.send(r.is_err());
    });
    std::thread::sleep(Duration::from_millis(500));   // let the sender block in the follow-up fragments
    drop(rx);                                          // the receiving end no longer exists anywhere
    match done_rx.recv_timeout(Duration::from_secs(10)) {
        Ok(is_err) => assert!(is_err, "send reported success although the receiver was gone"),
        Err(_) => panic!("send still blocked 10 s after the receiver vanished"),
    }
    sender.join().unwrap();
}
