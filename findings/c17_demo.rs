// demonstrations for C17: stopping a router by shutdown or by dropping its proxy
use ipc_channel::ipc;
use ipc_channel::router::RouterProxy;
use std::sync::atomic::{AtomicBool, AtomicUsize, Ordering};
use std::sync::Arc;
use std::time::Duration;

#[test]
fn no_callback_after_shutdown_and_callbacks_dropped() {
    let router = RouterProxy::new();
    let (tx, rx) = ipc::channel::<u32>().unwrap();
    let calls = Arc::new(AtomicUsize::new(0));
    let calls2 = calls.clone();
    let (probe_tx, probe_rx) = crossbeam_channel::unbounded::<()>();   // owned by the callback
    router.add_route(rx.to_opaque(), Box::new(move |_m| { let _keep = &probe_tx; calls2.fetch_add(1, Ordering::SeqCst); }));
    tx.send(1).unwrap();
    while calls.load(Ordering::SeqCst) == 0 { std::thread::sleep(Duration::from_millis(5)); }
    router.shutdown();
    // shutdown has returned: every callback (with what it owns) has been dropped ...
    assert!(matches!(probe_rx.try_recv(), Err(crossbeam_channel::TryRecvError::Disconnected)),
            "callback still alive after shutdown() returned");
    // ... and nothing is routed any more
    let _ = tx.send(2);
    std::thread::sleep(Duration::from_millis(300));
    assert_eq!(calls.load(Ordering::SeqCst), 1, "callback invoked after shutdown() returned");
}

#[test]
fn dropping_the_proxy_does_not_panic_the_router_thread() {
    static PANICKED: AtomicBool = AtomicBool::new(false);
    std::panic::set_hook(Box::new(|info| { eprintln!("panic: {info}"); PANICKED.store(true, Ordering::SeqCst); }));
    let router = RouterProxy::new();
    let (_tx, rx) = ipc::channel::<u32>().unwrap();
    router.add_route(rx.to_opaque(), Box::new(|_m| {}));
    std::thread::sleep(Duration::from_millis(100));
    drop(router);
    std::thread::sleep(Duration::from_millis(400));
    assert!(!PANICKED.load(Ordering::SeqCst), "router thread panicked when its proxy was dropped");
}
