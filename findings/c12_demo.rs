// demonstration for C12/C03: sender process killed in the middle of a multi-packet send
// while another handle to the same channel survives.
use ipc_channel::ipc::{self, IpcError};
use std::time::Duration;

#[test]
fn sender_killed_mid_send_with_surviving_clone() {
    let (tx, rx) = ipc::bytes_channel().unwrap();
    let survivor = tx.clone();
    let pid = unsafe { libc::fork() };
    if pid == 0 {
        // child: far more than the socket buffers hold; blocks while writing follow-up fragments
        let big = vec![0xabu8; 64 << 20];
        let _ = tx.send(&big);
        unsafe { libc::_exit(0) };
    }
    drop(tx);
    std::thread::sleep(Duration::from_millis(800));
    unsafe {
        libc::kill(pid, libc::SIGKILL);
        let mut st = 0;
        libc::waitpid(pid, &mut st, 0);
    }
    // `survivor` is alive: the channel is not disconnected.  The abandoned message is not a message at all:
    // the next thing the receiver sees is what the surviving sender sends.  (The survivor sends from its own
    // thread: the dead sender's first packet still fills the socket buffer until the receiver reads it.)
    let t = std::thread::spawn(move || {
        survivor.send(b"still works").unwrap();
        survivor.send(b"and again").unwrap();
    });
    match rx.recv() {
        Err(IpcError::Disconnected) => panic!("Disconnected reported although a sender handle is still alive"),
        Ok(v) => assert_eq!(v, b"still works", "a shortened or mixed payload was presented as a message"),
        Err(e) => panic!("the interrupted message surfaced as an error instead of being discarded: {:?}", e),
    }
    assert_eq!(rx.recv().unwrap(), b"and again");
    t.join().unwrap();
}
