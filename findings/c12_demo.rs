// demonstration for C12/C03: sender process killed in the middle of a multi-packet send
// while another handle to the same channel survives.
use ipc_channel::ipc::{self, IpcError};
use std::time::Duration;

#[test]
fn sender_killed_mid_send_with_surviving_clone() {
    let (tx, rx) = ipc::bytes_channel().unwrap();
    let survivor = tx.clone();
    let pid = unsafe { libc::fork() };
    if pid == 0 {
        // child: far more than the socket buffers hold; blocks while writing follow-up fragments
        let big = vec![0xabu8; 64 << 20];
        let _ = tx.send(&big);
        unsafe { libc::_exit(0) };
    }
    drop(tx);
    std::thread::sleep(Duration::from_millis(800));
    unsafe {
        libc::kill(pid, libc::SIGKILL);
        let mut st = 0;
        libc::waitpid(pid, &mut st, 0);
    }
    // `survivor` is alive: the channel is not disconnected
    match rx.recv() {
        Err(IpcError::Disconnected) => panic!("Disconnected reported although a sender handle is still alive"),
        Ok(v) => assert_eq!(v.len(), 64 << 20, "shortened payload presented as complete"),
        Err(_) => {},
    }
    survivor.send(b"still works").unwrap();
    assert_eq!(rx.recv().unwrap(), b"still works");
}
