// demonstration for the open C16/C07 finding: an undecodable message on a crossbeam-forwarding route
use ipc_channel::ipc;
use ipc_channel::router::RouterProxy;
use std::time::Duration;
#[test]
fn undecodable_message_on_one_route_does_not_take_the_router_down() {
    let router = RouterProxy::new();
    let (good_tx, good_rx) = ipc::channel::<u32>().unwrap();
    let good = router.route_ipc_receiver_to_new_crossbeam_receiver(good_rx);
    let (bad_tx, bad_rx) = ipc::channel::<u64>().unwrap();
    let _bad = router.route_ipc_receiver_to_new_crossbeam_receiver(bad_rx.to_opaque().to::<String>());
    good_tx.send(1).unwrap();
    assert_eq!(good.recv_timeout(Duration::from_secs(5)).unwrap(), 1);
    bad_tx.send(u64::MAX).unwrap();          // not a valid String encoding
    std::thread::sleep(Duration::from_millis(300));
    good_tx.send(2).unwrap();
    assert_eq!(good.recv_timeout(Duration::from_secs(5)).ok(), Some(2), "the other route stopped working: the router thread died");
}
