// demonstration for C18: zero-length regions are safe to create and read at every public API level
use ipc_channel::platform::OsIpcSharedMemory;
#[test]
fn zero_length_region_reads_as_empty_slice() {
    let m = OsIpcSharedMemory::from_bytes(&[]);
    let s: &[u8] = &m;          // Deref: slice::from_raw_parts(null, 0) is undefined behaviour
    assert_eq!(s.len(), 0);
    let m2 = OsIpcSharedMemory::from_byte(7, 0);
    assert_eq!(m2.len(), 0);
    let c = m.clone();
    assert_eq!(&*c, &[] as &[u8]);
}
