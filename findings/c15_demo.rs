// demonstration for C15: 65 senders in one message
use ipc_channel::ipc::{self, IpcSender};
#[test]
fn sixty_five_senders() {
    let (tx, rx) = ipc::channel::<Vec<IpcSender<u32>>>().unwrap();
    let mut keep = vec![];
    let mut v = vec![];
    for _ in 0..65 { let (s, r) = ipc::channel::<u32>().unwrap(); v.push(s); keep.push(r); }
    match tx.send(v) {
        Err(e) => { println!("send refused: {e}"); }
        Ok(()) => {
            // accepted: must arrive with all 65 working senders
            let got = std::panic::catch_unwind(std::panic::AssertUnwindSafe(|| rx.recv()));
            let got = got.expect("receiver panicked").expect("recv failed");
            assert_eq!(got.len(), 65);
            for (i, s) in got.iter().enumerate() { s.send(i as u32).unwrap(); }
            for (i, r) in keep.iter().enumerate() { assert_eq!(r.recv().unwrap(), i as u32); }
        }
    }
}
