// demonstration for the open C16 finding: a channel attachment index used twice
use ipc_channel::ipc::{self, IpcSender};
use std::panic::{catch_unwind, AssertUnwindSafe};
#[test]
fn channel_index_used_twice_is_an_error() {
    let (tx, rx) = ipc::channel::<(IpcSender<u32>, usize)>().unwrap();
    let (s, _r) = ipc::channel::<u32>().unwrap();
    tx.send((s, 0)).unwrap();
    let rx = rx.to_opaque().to::<(IpcSender<u32>, IpcSender<u32>)>();
    let r = catch_unwind(AssertUnwindSafe(|| { let got = rx.recv(); let is_err = got.is_err(); drop(got); is_err }));
    assert!(matches!(r, Ok(true)), "expected Err, got {}", if r.is_err() { "a panic" } else { "Ok (second endpoint is a sender for descriptor -1)" });
}
