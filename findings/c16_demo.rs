// demonstrations for C16: undecodable / mismatched payloads must give Err, not panic or leak
use ipc_channel::ipc::{self, IpcSender, IpcSharedMemory};
use std::panic::{catch_unwind, AssertUnwindSafe};

// (a) an attachment index that is out of range (the peer sent a plain integer)
#[test]
fn index_out_of_range_is_an_error() {
    let (tx, rx) = ipc::channel::<usize>().unwrap();
    tx.send(7).unwrap();
    let rx = rx.to_opaque().to::<IpcSender<u32>>();
    let r = catch_unwind(AssertUnwindSafe(|| rx.recv()));
    assert!(matches!(r, Ok(Err(_))), "expected Err, got {}", if r.is_err() { "a panic" } else { "Ok" });
}

// (b) a region index used twice
#[test]
fn region_index_used_twice_is_an_error() {
    let (tx, rx) = ipc::channel::<(IpcSharedMemory, usize)>().unwrap();
    tx.send((IpcSharedMemory::from_bytes(b"abc"), 0)).unwrap();
    let rx = rx.to_opaque().to::<(IpcSharedMemory, IpcSharedMemory)>();
    let r = catch_unwind(AssertUnwindSafe(|| rx.recv()));
    assert!(matches!(r, Ok(Err(_))), "expected Err, got {}", if r.is_err() { "a panic" } else { "Ok" });
}

fn open_fds() -> usize { std::fs::read_dir("/proc/self/fd").unwrap().count() }

// (d) an attachment the expected type never references is released, not kept open (and no panic)
#[test]
fn unreferenced_attachment_is_released() {
    let (tx, rx) = ipc::channel::<IpcSender<u32>>().unwrap();
    let rx = rx.to_opaque().to::<usize>();
    let before = open_fds();
    for _ in 0..20 {
        let (s, r) = ipc::channel::<u32>().unwrap();
        tx.send(s).unwrap();
        drop(r);
        let got = catch_unwind(AssertUnwindSafe(|| rx.recv()));
        assert!(got.is_ok(), "receiving a message with an unreferenced attachment panicked");
    }
    let after = open_fds();
    assert!(after <= before + 1, "descriptors leaked: {} -> {}", before, after);
}
