// demonstration for C11 (inheritance): descriptors the library creates are close-on-exec
use ipc_channel::ipc::{self, IpcOneShotServer, IpcSender, IpcSharedMemory};
use std::collections::BTreeSet;

fn fds() -> BTreeSet<i32> {
    (0..512).filter(|fd| unsafe { libc::fcntl(*fd, libc::F_GETFD) } >= 0).collect()
}
fn cloexec(fd: i32) -> Option<bool> {
    let f = unsafe { libc::fcntl(fd, libc::F_GETFD) };
    if f < 0 { None } else { Some(f & libc::FD_CLOEXEC != 0) }
}
fn new_fds_are_cloexec(before: &BTreeSet<i32>, what: &str) {
    for fd in fds().difference(before) {
        let c = cloexec(*fd); eprintln!("{what}: new fd {fd} cloexec={c:?}"); if let Some(c) = c { assert!(c, "{what}: descriptor {fd} is not close-on-exec"); }
    }
}

#[test]
fn cloned_region_descriptor_is_cloexec() {
    let shm = IpcSharedMemory::from_bytes(b"hello");
    let before = fds();
    let _c = shm.clone();
    new_fds_are_cloexec(&before, "IpcSharedMemory::clone");
}

#[test]
fn accepted_connection_is_cloexec() {
    let (server, name) = IpcOneShotServer::<u32>::new().unwrap();
    let tx = IpcSender::<u32>::connect(name).unwrap();
    tx.send(7).unwrap();
    let before = fds();
    let (_rx, v) = server.accept().unwrap();
    assert_eq!(v, 7);
    new_fds_are_cloexec(&before, "IpcOneShotServer::accept");
    let _ = ipc::channel::<u32>().unwrap();
}
