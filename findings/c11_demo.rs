// demonstration for C11: a failed connect must not leave a descriptor behind
use ipc_channel::ipc::IpcSender;
fn open_fds() -> usize { std::fs::read_dir("/proc/self/fd").unwrap().count() }
#[test]
fn failed_connect_does_not_leak() {
    let before = open_fds();
    for _ in 0..100 {
        assert!(IpcSender::<u32>::connect("/nonexistent/dir/socket".to_string()).is_err());
    }
    let after = open_fds();
    assert!(after <= before + 1, "descriptors leaked by failed connects: {} -> {}", before, after);
}
