// demonstration for C11: a failing IpcReceiverSet::add must not leak the receiver's descriptor
use ipc_channel::ipc::{self, IpcReceiverSet};
use std::sync::atomic::{AtomicI32, Ordering};
static FAIL_EPOLL_CTL: AtomicI32 = AtomicI32::new(0);
#[no_mangle]
pub unsafe extern "C" fn epoll_ctl(epfd: libc::c_int, op: libc::c_int, fd: libc::c_int, ev: *mut libc::epoll_event) -> libc::c_int {
    if FAIL_EPOLL_CTL.load(Ordering::SeqCst) != 0 && op == libc::EPOLL_CTL_ADD { *libc::__errno_location() = libc::ENOSPC; return -1; }
    let f: unsafe extern "C" fn(libc::c_int, libc::c_int, libc::c_int, *mut libc::epoll_event) -> libc::c_int =
        std::mem::transmute(libc::dlsym(libc::RTLD_NEXT, b"epoll_ctl\0".as_ptr() as *const libc::c_char));
    f(epfd, op, fd, ev)
}
fn open_fds() -> Vec<i32> { (0..1024).filter(|fd| unsafe { libc::fcntl(*fd, libc::F_GETFD) } >= 0).collect() }
#[test]
fn failed_add_does_not_leak() {
    let mut set = IpcReceiverSet::new().unwrap();
    let before = open_fds();
    for _ in 0..5 {
        let (tx, rx) = ipc::channel::<u32>().unwrap();
        FAIL_EPOLL_CTL.store(1, Ordering::SeqCst);
        assert!(set.add(rx).is_err());
        FAIL_EPOLL_CTL.store(0, Ordering::SeqCst);
        drop(tx);
    }
    assert_eq!(open_fds(), before, "descriptors leaked by failed IpcReceiverSet::add");
}
