// demonstration for C14: a send whose serialisation fails must not retain the embedded endpoints
use ipc_channel::ipc::{self, IpcSender, TryRecvError, IpcError};
use serde::{Serialize, Serializer, Deserialize, ser::Error, ser::SerializeTuple};

#[derive(Deserialize)]
struct Failing { tx: IpcSender<u32>, n: u32 }
impl Serialize for Failing {
    fn serialize<S: Serializer>(&self, s: S) -> Result<S::Ok, S::Error> {
        let mut t = s.serialize_tuple(2)?;
        t.serialize_element(&self.tx)?;          // embeds the sender (pushes it on the thread-local list)
        Err(S::Error::custom("boom"))            // ... then serialisation fails
    }
}

#[test]
fn failed_send_does_not_keep_the_embedded_sender_alive() {
    let (carrier_tx, _carrier_rx) = ipc::channel::<Failing>().unwrap();
    let (tx, rx) = ipc::channel::<u32>().unwrap();
    assert!(carrier_tx.send(Failing { tx, n: 1 }).is_err());
    // every handle the program had is gone now (the value was moved into send and dropped)
    match rx.try_recv() {
        Err(TryRecvError::IpcError(IpcError::Disconnected)) => {},
        other => panic!("channel still connected after the failed send dropped its only sender: {:?}", other.map_err(|e| format!("{e:?}"))),
    }
}
