// demonstration for C11: failing one-shot-server operations must not leave descriptors behind
use ipc_channel::ipc::{IpcOneShotServer, IpcSender};
use std::sync::atomic::{AtomicI32, Ordering};

static FAIL_BIND: AtomicI32 = AtomicI32::new(0);
static FAIL_LISTEN: AtomicI32 = AtomicI32::new(0);
static FAIL_SETSOCKOPT: AtomicI32 = AtomicI32::new(0);
unsafe fn next(name: &[u8]) -> *mut libc::c_void { libc::dlsym(libc::RTLD_NEXT, name.as_ptr() as *const libc::c_char) }

#[no_mangle]
pub unsafe extern "C" fn bind(fd: libc::c_int, addr: *const libc::sockaddr, len: libc::socklen_t) -> libc::c_int {
    if FAIL_BIND.load(Ordering::SeqCst) != 0 { *libc::__errno_location() = libc::EADDRINUSE; return -1; }
    let f: unsafe extern "C" fn(libc::c_int, *const libc::sockaddr, libc::socklen_t) -> libc::c_int = std::mem::transmute(next(b"bind\0"));
    f(fd, addr, len)
}
#[no_mangle]
pub unsafe extern "C" fn listen(fd: libc::c_int, n: libc::c_int) -> libc::c_int {
    if FAIL_LISTEN.load(Ordering::SeqCst) != 0 { *libc::__errno_location() = libc::EADDRINUSE; return -1; }
    let f: unsafe extern "C" fn(libc::c_int, libc::c_int) -> libc::c_int = std::mem::transmute(next(b"listen\0"));
    f(fd, n)
}
#[no_mangle]
pub unsafe extern "C" fn setsockopt(fd: libc::c_int, level: libc::c_int, name: libc::c_int, val: *const libc::c_void, len: libc::socklen_t) -> libc::c_int {
    if FAIL_SETSOCKOPT.load(Ordering::SeqCst) != 0 && name == libc::SO_LINGER { *libc::__errno_location() = libc::ENOBUFS; return -1; }
    let f: unsafe extern "C" fn(libc::c_int, libc::c_int, libc::c_int, *const libc::c_void, libc::socklen_t) -> libc::c_int = std::mem::transmute(next(b"setsockopt\0"));
    f(fd, level, name, val, len)
}
fn open_fds() -> Vec<i32> { (0..1024).filter(|fd| unsafe { libc::fcntl(*fd, libc::F_GETFD) } >= 0).collect() }

#[test]
fn failing_server_operations_do_not_leak() {
    let before = open_fds();
    FAIL_BIND.store(1, Ordering::SeqCst);
    for _ in 0..5 { assert!(IpcOneShotServer::<u32>::new().is_err()); }
    FAIL_BIND.store(0, Ordering::SeqCst);
    assert_eq!(open_fds(), before, "descriptors leaked when bind() failed");
    FAIL_LISTEN.store(1, Ordering::SeqCst);
    for _ in 0..5 { assert!(IpcOneShotServer::<u32>::new().is_err()); }
    FAIL_LISTEN.store(0, Ordering::SeqCst);
    assert_eq!(open_fds(), before, "descriptors leaked when listen() failed");
    for _ in 0..5 {
        let (server, name) = IpcOneShotServer::<u32>::new().unwrap();
        let tx = IpcSender::<u32>::connect(name).unwrap();
        tx.send(1).unwrap();
        FAIL_SETSOCKOPT.store(1, Ordering::SeqCst);
        assert!(server.accept().is_err());
        FAIL_SETSOCKOPT.store(0, Ordering::SeqCst);
        drop(tx);
    }
    assert_eq!(open_fds(), before, "descriptors leaked when accept() failed after accepting the connection");
}
