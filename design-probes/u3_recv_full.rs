#![feature(allocator_api)]
use vstd::prelude::*;
use std::cmp;
use std::mem;
use vstd::std_specs::cmp::OrdSpec;
verus! {
global size_of usize == 8;
#[allow(non_camel_case_types)] pub type c_int = i32;
#[allow(non_camel_case_types)] pub type size_t = usize;
pub const RESERVED_SIZE: usize = 32;
pub const MAX_FDS_IN_CMSG: u32 = 64;

pub enum UnixError { Errno(c_int), ChannelClosed }
#[derive(Copy, Clone)]
pub enum BlockingMode { Blocking, Nonblocking, Timeout(u64) }

pub assume_specification<T: std::cmp::Ord> [std::cmp::min] (a: T, b: T) -> (r: T)
    ensures T::obeys_cmp_spec() ==> r == (if a.cmp_spec(&b) == std::cmp::Ordering::Greater { b } else { a });
pub assume_specification<T: std::cmp::Ord> [std::cmp::max] (a: T, b: T) -> (r: T)
    ensures T::obeys_cmp_spec() ==> r == (if a.cmp_spec(&b) == std::cmp::Ordering::Greater { a } else { b });
pub uninterp spec fn vec_cap<T, A: std::alloc::Allocator>(v: &Vec<T, A>) -> nat;
pub assume_specification<T, A: std::alloc::Allocator> [Vec::<T, A>::capacity] (v: &Vec<T, A>) -> (r: usize)
    ensures r == vec_cap(v), r >= v@.len();
pub assume_specification<T, A: std::alloc::Allocator> [Vec::<T, A>::reserve_exact] (v: &mut Vec<T, A>, n: usize)
    requires old(v)@.len() + n <= isize::MAX
    ensures final(v)@ == old(v)@, vec_cap(final(v)) >= old(v)@.len() + n;
pub assume_specification<T, A: std::alloc::Allocator> [Vec::<T, A>::set_len] (v: &mut Vec<T, A>, n: usize)
    requires n <= vec_cap(old(v))
    ensures final(v)@.len() == n, vec_cap(final(v)) == vec_cap(old(v)),
        forall|i: int| 0 <= i < n && i < old(v)@.len() ==> final(v)@[i] == old(v)@[i];

#[verifier::external_body]
fn vec_with_capacity(n: usize) -> (v: Vec<u8>) ensures v@.len() == 0, vec_cap(&v) >= n { Vec::with_capacity(n) }
pub struct Packet { pub hdr: Option<nat>, pub data: Seq<u8>, pub fds: Seq<c_int> }
pub struct K { pub q: Map<c_int, Seq<Packet>>, pub sock: Set<c_int> }
pub open spec fn spec_frag(s: nat) -> nat { (s - 32) as nat }
pub open spec fn spec_first(s: nat) -> nat { ((((s - 40) as nat) / 8) * 8) as nat }
pub uninterp spec fn sys_sendbuf() -> nat;
#[verifier::external_body] fn system_sendbuf_size() -> (r: usize) ensures r == sys_sendbuf() { unimplemented!() }
#[verifier::external_body] fn get_max_fragment_size() -> (r: usize) ensures r == spec_first(sys_sendbuf()) { unimplemented!() }
fn fragment_size(sendbuf_size: usize) -> (r: usize) requires sendbuf_size >= 32 ensures r == spec_frag(sendbuf_size as nat) { sendbuf_size - RESERVED_SIZE }

pub open spec fn flat(q: Seq<Packet>) -> Seq<u8> decreases q.len() {
    if q.len() == 0 { Seq::empty() } else { q.first().data + flat(q.drop_first()) }
}
pub open spec fn followups_ok(q: Seq<Packet>) -> bool {
    forall|i: int| 0 <= i < q.len() ==> (#[trigger] q[i]).hdr is None && q[i].fds.len() == 0 && 0 < q[i].data.len() <= spec_frag(sys_sendbuf())
}

pub struct OsOpaqueIpcChannel { pub fd: c_int }
impl OsOpaqueIpcChannel {
    fn from_fd(fd: c_int) -> (r: OsOpaqueIpcChannel) ensures r.fd == fd { OsOpaqueIpcChannel { fd } }
    #[verifier::external_body]
    fn to_receiver(&mut self) -> (r: OsIpcReceiver) ensures rx_fd(&r) == old(self).fd, final(self).fd == -1 { unimplemented!() }
}
#[verifier::external_body] pub struct OsIpcReceiver { _p: () }
pub uninterp spec fn rx_fd(r: &OsIpcReceiver) -> c_int;
#[verifier::external_body] fn rx_fd_get(r: &OsIpcReceiver) -> (x: c_int) ensures x == rx_fd(r) { unimplemented!() }
pub struct OsIpcSharedMemory { pub fd: c_int }
impl OsIpcSharedMemory { #[verifier::external_body] fn from_fd(fd: c_int) -> (r: OsIpcSharedMemory) ensures r.fd == fd { unimplemented!() } }

#[verifier::external_body]
fn is_socket(fd: c_int, Tracked(k): Tracked<&K>) -> (r: bool) ensures r == k.sock.contains(fd) { unimplemented!() }

pub open spec fn spec_cmsg_align(n: nat) -> nat { ((n + 7) / 8 * 8) as nat }
#[allow(non_snake_case)]
fn CMSG_ALIGN(length: size_t) -> (r: size_t) requires length <= 0x1000_0000 ensures r == spec_cmsg_align(length as nat)
{
    proof { assert(((length + 7) as usize) & !7usize == (length + 7) as usize / 8 * 8) by (bit_vector); }
    (length + mem::size_of::<size_t>() - 1) & !(mem::size_of::<size_t>() - 1)
}

// stand-in for UnixCmsg (prelude)
pub struct UnixCmsg { pub ghost got: Option<Packet> }
impl UnixCmsg {
    #[verifier::external_body]
    fn new() -> (r: Result<UnixCmsg, UnixError>) ensures r matches Ok(c) ==> c.got is None { unimplemented!() }
    #[verifier::external_body]
    fn recv(&mut self, fd: c_int, blocking_mode: BlockingMode, total_size: &mut usize, buf: &mut Vec<u8>, Tracked(k): Tracked<&mut K>) -> (r: Result<usize, UnixError>)
        requires old(k).q.dom().contains(fd), old(buf)@.len() == spec_first(sys_sendbuf()),
        ensures
            final(buf)@.len() == old(buf)@.len(), vec_cap(final(buf)) == vec_cap(old(buf)),
            r matches Ok(n) ==> {
                let p = old(k).q[fd].first();
                &&& old(k).q[fd].len() > 0
                &&& final(k).q == old(k).q.insert(fd, old(k).q[fd].drop_first())
                &&& final(k).sock == old(k).sock
                &&& final(self).got == Some(p)
                &&& p.hdr is Some && *final(total_size) == p.hdr->Some_0
                &&& n >= 8 && n <= 8 + old(buf)@.len()
                &&& p.data.len() <= old(buf)@.len() ==> n == 8 + p.data.len() && final(buf)@.subrange(0, p.data.len() as int) == p.data
            },
            r is Err ==> *final(k) == *old(k),
    { unimplemented!() }
    #[verifier::external_body]
    fn msg_controllen(&self) -> (r: usize) requires self.got is Some
        ensures r == (if self.got->Some_0.fds.len() == 0 { 0nat } else { (16 + spec_cmsg_align(4 * self.got->Some_0.fds.len())) as nat })
    { unimplemented!() }
    #[verifier::external_body]
    fn cmsg_len(&self) -> (r: size_t) requires self.got is Some, self.got->Some_0.fds.len() > 0
        ensures r == 16 + 4 * self.got->Some_0.fds.len()
    { unimplemented!() }
    #[verifier::external_body]
    fn fd_at(&self, index: usize) -> (r: c_int) requires self.got is Some, index < self.got->Some_0.fds.len(), index < MAX_FDS_IN_CMSG
        ensures r == self.got->Some_0.fds[index as int]
    { unimplemented!() }
}

#[verifier::external_body]
fn k_recv(Tracked(k): Tracked<&mut K>, fd: c_int, buf: &mut Vec<u8>, write_pos: usize, len: usize) -> (r: isize)
    requires old(k).q.dom().contains(fd), write_pos + len == old(buf)@.len()
    ensures
        final(buf)@.len() == old(buf)@.len(), vec_cap(final(buf)) == vec_cap(old(buf)),
        final(buf)@.subrange(0, write_pos as int) == old(buf)@.subrange(0, write_pos as int),
        final(k).sock == old(k).sock,
        r > 0 ==> {
            let p = old(k).q[fd].first();
            &&& old(k).q[fd].len() > 0
            &&& final(k).q == old(k).q.insert(fd, old(k).q[fd].drop_first())
            &&& p.data.len() <= len ==> r == p.data.len() && final(buf)@.subrange(write_pos as int, write_pos + r) == p.data
            &&& p.data.len() > len ==> r == len    // truncated: rest of packet lost
        },
        r == 0 ==> old(k).q[fd].len() == 0 && *final(k) == *old(k),
        r < 0 ==> *final(k) == *old(k),
{ unimplemented!() }
#[verifier::external_body] fn last_error() -> UnixError { unimplemented!() }

pub open spec fn chv(v: &Vec<OsOpaqueIpcChannel>) -> Seq<OsOpaqueIpcChannel> { v@ }

pub open spec fn wellformed_head(k: K, fd: c_int, data: Seq<u8>, chan: Seq<c_int>, reg: Seq<c_int>) -> bool {
    let p = k.q[fd].first();
    &&& k.q.dom().contains(fd) && k.q[fd].len() > 0
    &&& p.hdr == Some(data.len())
    &&& data.len() <= isize::MAX
    &&& p.data.len() <= spec_first(sys_sendbuf())
    &&& forall|i: int| 0 <= i < chan.len() ==> k.sock.contains(#[trigger] chan[i])
    &&& forall|i: int| 0 <= i < reg.len() ==> !k.sock.contains(#[trigger] reg[i])
    &&& if p.data.len() == data.len() { p.data == data && p.fds == chan + reg && p.fds.len() <= 64 } else {
            let ded = p.fds.last();
            &&& p.fds == (chan + reg).push(ded) && p.fds.len() <= 64
            &&& k.sock.contains(ded) && k.q.dom().contains(ded) && ded != fd
            &&& followups_ok(k.q[ded])
            &&& p.data + flat(k.q[ded]) == data
            &&& p.data.len() < data.len()
        }
}

fn recv(fd: c_int, blocking_mode: BlockingMode, Tracked(k): Tracked<&mut K>, Ghost(data): Ghost<Seq<u8>>, Ghost(chan): Ghost<Seq<c_int>>, Ghost(reg): Ghost<Seq<c_int>>)
    -> (r: Result<(Vec<u8>, Vec<OsOpaqueIpcChannel>, Vec<OsIpcSharedMemory>), UnixError>)
    requires 48 <= sys_sendbuf() <= isize::MAX, wellformed_head(*old(k), fd, data, chan, reg)
    ensures r matches Ok((d, c, s)) ==> d@ == data
{
    let ghost k0 = *k;
    let ghost p = k0.q[fd].first();
    let ghost mut k1 = *k;
    let (mut channels, mut shared_memory_regions) = (Vec::new(), Vec::new());
    let mut total_size = 0usize;
    let mut main_data_buffer;
    unsafe {
        main_data_buffer = vec_with_capacity(get_max_fragment_size());
        main_data_buffer.set_len(get_max_fragment_size());

        let mut cmsg = UnixCmsg::new()?;

        let ghost filled;
        let bytes_read = cmsg.recv(fd, blocking_mode, &mut total_size, &mut main_data_buffer, Tracked(&mut *k))?;
        proof { filled = main_data_buffer@; }
        main_data_buffer.set_len(bytes_read - mem::size_of::<usize>());
        proof {
            assert(main_data_buffer@ =~= p.data) by {
                assert(filled.subrange(0, p.data.len() as int) == p.data);
                assert forall|i: int| 0 <= i < p.data.len() implies main_data_buffer@[i] == p.data[i] by {
                    assert(filled.subrange(0, p.data.len() as int)[i] == filled[i]);
                }
            }
        }
        proof { k1 = *k; }

        let cmsg_length = cmsg.msg_controllen();
        let channel_length = if cmsg_length == 0 {
            0
        } else {
            (cmsg.cmsg_len() - CMSG_ALIGN(16)) / mem::size_of::<c_int>()
        };
        let mut index = 0;
        while index < channel_length
            invariant
                index <= channel_length,
                cmsg.got == Some(p), channel_length == p.fds.len(), *k == k1, p.fds.len() <= 64,
                index > 0 && k1.sock.contains(p.fds[index - 1]) ==> chv(&channels).len() > 0 && chv(&channels).last().fd == p.fds[index - 1],
            decreases channel_length - index
        {
            let fd = cmsg.fd_at(index);
            if is_socket(fd, Tracked(&*k)) {
                channels.push(OsOpaqueIpcChannel::from_fd(fd));
                index += 1;
                continue;
            }
            shared_memory_regions.push(OsIpcSharedMemory::from_fd(fd));
            index += 1;
        }
    }

    if total_size == main_data_buffer.len() {
        return Ok((main_data_buffer, channels, shared_memory_regions));
    }

    let ghost ded = p.fds.last();
    let dedicated_rx = channels.pop().unwrap().to_receiver();

    let len = main_data_buffer.len();
    main_data_buffer.reserve_exact(total_size - len);

    while main_data_buffer.len() < total_size
        invariant
            48 <= sys_sendbuf() <= isize::MAX,
            total_size == data.len(), data.len() <= isize::MAX,
            main_data_buffer@.len() <= total_size,
            vec_cap(&main_data_buffer) >= total_size,
            rx_fd(&dedicated_rx) == ded, k.q.dom().contains(ded),
            followups_ok(k.q[ded]),
            main_data_buffer@ + flat(k.q[ded]) == data,
        decreases total_size - main_data_buffer@.len()
    {
        let ghost kb = *k;
        let ghost mb = main_data_buffer@;
        let ghost mut after_set = main_data_buffer@;
        let ghost mut after_recv = main_data_buffer@;
        let write_pos = main_data_buffer.len();
        let end_pos = cmp::min(
            write_pos + fragment_size(system_sendbuf_size()),
            total_size,
        );
        let result = unsafe {
            assert!(end_pos <= main_data_buffer.capacity());
            main_data_buffer.set_len(end_pos);
            proof { after_set = main_data_buffer@; }
            assert!(end_pos >= write_pos);
            let result = k_recv(Tracked(&mut *k), rx_fd_get(&dedicated_rx), &mut main_data_buffer, write_pos, end_pos - write_pos);
            proof { after_recv = main_data_buffer@; }
            main_data_buffer.set_len(write_pos + cmp::max(result, 0) as usize);
            result
        };

        proof {
            if result > 0 {
                let hp = kb.q[ded].first();
                assert(flat(kb.q[ded]) == hp.data + flat(kb.q[ded].drop_first()));
                assert(flat(kb.q[ded]).len() >= hp.data.len());
                assert(mb.len() + flat(kb.q[ded]).len() == data.len());
                assert(result == hp.data.len());
                assert(main_data_buffer@.len() == mb.len() + hp.data.len());
                assert forall|i: int| 0 <= i < main_data_buffer@.len() implies main_data_buffer@[i] == (mb + hp.data)[i] by {
                    if i < mb.len() {
                        assert(after_recv.subrange(0, mb.len() as int)[i] == after_set.subrange(0, mb.len() as int)[i]);
                    } else {
                        assert(after_recv.subrange(mb.len() as int, mb.len() + result)[i - mb.len()] == hp.data[i - mb.len()]);
                    }
                }
                assert(main_data_buffer@ =~= mb + hp.data);
                assert((mb + hp.data) + flat(kb.q[ded].drop_first()) =~= mb + (hp.data + flat(kb.q[ded].drop_first())));
                assert(followups_ok(k.q[ded])) by {
                    assert forall|i: int| 0 <= i < k.q[ded].len() implies (#[trigger] k.q[ded][i]).hdr is None && k.q[ded][i].fds.len() == 0 && 0 < k.q[ded][i].data.len() <= spec_frag(sys_sendbuf()) by {
                        assert(k.q[ded][i] == kb.q[ded][i + 1]);
                    }
                }
            }
        }
        match result.cmp(&0) {
            cmp::Ordering::Greater => continue,
            cmp::Ordering::Equal => return Err(UnixError::ChannelClosed),
            cmp::Ordering::Less => return Err(last_error()),
        }
    }

    Ok((main_data_buffer, channels, shared_memory_regions))
}
}
fn main() {}
