use vstd::prelude::*;
use std::cell::Cell;
verus! {
#[verifier::reject_recursive_types(T)]
#[verifier::external_type_specification]
#[verifier::external_body]
pub struct ExCell<T: ?Sized>(Cell<T>);
pub uninterp spec fn cell_val<T>(c: &Cell<T>) -> T;
pub assume_specification<T: Copy> [Cell::<T>::get] (c: &Cell<T>) -> (r: T) ensures r == cell_val(c);
pub struct OsIpcReceiver { fd: Cell<i32> }
fn g(r: &OsIpcReceiver) -> (x: i32) ensures x == cell_val(&r.fd) { r.fd.get() }
}
fn main() {}
