use vstd::prelude::*;
verus! {
global size_of usize == 8;
fn f() -> (r: usize) ensures r == 8 { let t = 0usize; std::mem::size_of_val(&t) }
}
fn main() {}
