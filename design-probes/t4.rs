#![feature(allocator_api)]
use vstd::prelude::*;
use std::cmp;
use vstd::std_specs::cmp::OrdSpec;
verus! {
global size_of usize == 8;
pub type c_int = i32;

pub enum UnixError { Errno(c_int), ChannelClosed }
impl UnixError {
    pub fn channel_is_closed(&self) -> (r: bool) ensures r == (self is ChannelClosed) { matches!(self, UnixError::ChannelClosed) }
}

pub assume_specification<T: std::cmp::Ord> [std::cmp::min] (a: T, b: T) -> (r: T)
    ensures T::obeys_cmp_spec() ==> r == (if a.cmp_spec(&b) == std::cmp::Ordering::Greater { b } else { a });
pub assume_specification<T: std::cmp::Ord> [std::cmp::max] (a: T, b: T) -> (r: T)
    ensures T::obeys_cmp_spec() ==> r == (if a.cmp_spec(&b) == std::cmp::Ordering::Greater { a } else { b });

pub uninterp spec fn vec_cap<T, A: std::alloc::Allocator>(v: &Vec<T, A>) -> nat;
pub assume_specification<T, A: std::alloc::Allocator> [Vec::<T, A>::capacity] (v: &Vec<T, A>) -> (r: usize)
    ensures r == vec_cap(v), r >= v@.len();
pub assume_specification<T, A: std::alloc::Allocator> [Vec::<T, A>::reserve_exact] (v: &mut Vec<T, A>, n: usize)
    ensures final(v)@ == old(v)@, vec_cap(final(v)) >= old(v)@.len() + n;
pub assume_specification<T, A: std::alloc::Allocator> [Vec::<T, A>::set_len] (v: &mut Vec<T, A>, n: usize)
    requires n <= vec_cap(old(v))
    ensures final(v)@.len() == n, vec_cap(final(v)) == vec_cap(old(v)),
        forall|i: int| 0 <= i < n && i < old(v)@.len() ==> final(v)@[i] == old(v)@[i];

#[verifier::external_body]
fn k_recv(fd: c_int, buf: &mut Vec<u8>, write_pos: usize, len: usize) -> (r: isize)
    requires write_pos + len == old(buf)@.len()
    ensures r <= len as int, final(buf)@.len() == old(buf)@.len(), vec_cap(final(buf)) == vec_cap(old(buf)),
       forall|i: int| 0 <= i < write_pos ==> final(buf)@[i] == old(buf)@[i]
{ unimplemented!() }

fn stub() -> Result<usize, UnixError> { Ok(1) }

fn reasm(fd: c_int, main: Vec<u8>, total_size: usize, sys: usize) -> (r: Result<Vec<u8>, UnixError>)
    requires main@.len() < total_size, sys >= 40, total_size < 0x7fff_ffff_ffff_0000
    ensures r matches Ok(v) ==> v@.len() == total_size
{
    let mut main_data_buffer = main;
    let x = stub()?;
    let len = main_data_buffer.len();
    main_data_buffer.reserve_exact(total_size - len);
    while main_data_buffer.len() < total_size
        invariant vec_cap(&main_data_buffer) >= total_size, sys >= 40, total_size < 0x7fff_ffff_ffff_0000
        decreases total_size - main_data_buffer.len()
    {
        let write_pos = main_data_buffer.len();
        let end_pos = cmp::min(write_pos + (sys - 32), total_size);
        let result = unsafe {
            assert!(end_pos <= main_data_buffer.capacity());
            main_data_buffer.set_len(end_pos);
            assert!(end_pos >= write_pos);
            let result = k_recv(fd, &mut main_data_buffer, write_pos, end_pos - write_pos);
            main_data_buffer.set_len(write_pos + cmp::max(result, 0) as usize);
            result
        };
        match result.cmp(&0) {
            cmp::Ordering::Greater => continue,
            cmp::Ordering::Equal => return Err(UnixError::ChannelClosed),
            cmp::Ordering::Less => return Err(UnixError::Errno(1)),
        }
    }
    Ok(main_data_buffer)
}

fn guard_test(e: Result<u8, UnixError>) -> u8 {
    match e {
        Ok(x) => x,
        Err(err) if err.channel_is_closed() => 1,
        Err(UnixError::Errno(code)) if code == 11 => 2,
        Err(err) => 3,
    }
}
}
fn main() {}
