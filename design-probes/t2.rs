use vstd::prelude::*;
use std::cmp;
use vstd::std_specs::cmp::OrdSpec;
verus! {

global size_of usize == 8;

pub const RESERVED_SIZE: usize = 32;
#[allow(non_camel_case_types)]
pub type c_int = i32;

#[verifier::external_type_specification]
#[verifier::external_body]
pub struct ExIoError(std::io::Error);

pub enum UnixError {
    Errno(c_int),
    ChannelClosed,
    IoError(std::io::Error),
}

pub assume_specification<T: std::cmp::Ord> [std::cmp::min] (a: T, b: T) -> (r: T)
    ensures T::obeys_cmp_spec() ==> r == (if a.cmp_spec(&b) == std::cmp::Ordering::Greater { b } else { a });

pub mod libc { pub const ENOBUFS: i32 = 105; }

// ---------- ghost wire ----------
pub struct Packet { pub fd: int, pub hdr: Option<nat>, pub data: Seq<u8>, pub fds: Seq<int> }
pub struct Wire { pub pk: Seq<Packet> }

pub struct SharedFileDescriptor(pub c_int);
pub struct ArcFd { pub inner: SharedFileDescriptor }  // stand-in to test field path self.fd.0

pub struct OsIpcSender { pub fd: ArcFd }
pub struct OsIpcReceiver { pub fd: c_int }
pub struct BackingStore { pub fd: c_int }
pub struct OsIpcSharedMemory { pub store: BackingStore }
pub enum OsIpcChannel { Sender(OsIpcSender), Receiver(OsIpcReceiver) }

impl OsIpcChannel {
    fn fd(&self) -> (r: c_int)
        ensures r == self.spec_fd()
    {
        match *self {
            OsIpcChannel::Sender(ref sender) => sender.fd.inner.0,
            OsIpcChannel::Receiver(ref receiver) => receiver.fd,
        }
    }
    pub open spec fn spec_fd(&self) -> c_int {
        match *self {
            OsIpcChannel::Sender(sender) => sender.fd.inner.0,
            OsIpcChannel::Receiver(receiver) => receiver.fd,
        }
    }
}

impl BackingStore { fn fd(&self) -> (r: c_int) ensures r == self.fd { self.fd } }

fn send(this: &OsIpcSender, data: &[u8], channels: Vec<OsIpcChannel>, shared_memory_regions: Vec<OsIpcSharedMemory>) -> Result<(), UnixError>
{
        let mut fds = Vec::new();
        for channel in channels.iter() {
            fds.push(channel.fd());
        }
        for shared_memory_region in shared_memory_regions.iter() {
            fds.push(shared_memory_region.store.fd());
        }

        fn send_first_fragment(
            sender_fd: c_int,
            fds: &[c_int],
            data_buffer: &[u8],
            len: usize,
        ) -> Result<(), UnixError> {
            Ok(())
        }
        send_first_fragment(this.fd.inner.0, &fds[..], data, data.len())
}

} // verus!
fn main() {}
