use vstd::prelude::*;
use std::collections::HashMap;
verus! {
pub struct OpaqueIpcMessage;
#[verifier::external_body]
pub struct RouterHandler { _p: () }
pub enum IpcSelectionResult { MessageReceived(u64, OpaqueIpcMessage), ChannelClosed(u64) }
pub enum RouterMsg { AddRoute(u64, RouterHandler), Shutdown(u64) }
pub struct Router { msg_wakeup_id: u64, handlers: HashMap<u64, RouterHandler> }

#[verifier::external_body]
fn select(r: &mut Router, Ghost(stopped): Ghost<bool>) -> (res: Result<Vec<IpcSelectionResult>, ()>)
   requires !stopped
   ensures final(r).msg_wakeup_id == old(r).msg_wakeup_id, final(r).handlers@ == old(r).handlers@
{ unimplemented!() }
#[verifier::external_body]
fn next_msg() -> RouterMsg { unimplemented!() }
#[verifier::external_body]
fn invoke(h: &mut HashMap<u64, RouterHandler>, id: u64, m: OpaqueIpcMessage)
   requires old(h)@.contains_key(id)
   ensures final(h)@ == old(h)@
{ unimplemented!() }

#[verifier::exec_allows_no_decreases_clause]
fn run(this: &mut Router) {
    let ghost mut stopped = false;
    loop
        invariant !stopped
    {
        let results = match select(this, Ghost(stopped)) {
            Ok(results) => results,
            Err(_) => break,
        };
        for result in results.into_iter() {
            match result {
                IpcSelectionResult::MessageReceived(id, _) if id == this.msg_wakeup_id => {
                    match next_msg() {
                        RouterMsg::AddRoute(receiver, handler) => {
                            this.handlers.insert(receiver, handler);
                        },
                        RouterMsg::Shutdown(sender) => {
                            proof { stopped = true; }
                            break;
                        },
                    }
                },
                IpcSelectionResult::MessageReceived(id, message) => {
                    invoke(&mut this.handlers, id, message)
                },
                IpcSelectionResult::ChannelClosed(id) => {
                    let _ = this.handlers.remove(&id).unwrap();
                },
            }
        }
    }
}
}
fn main() {}
