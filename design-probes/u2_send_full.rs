#![feature(allocator_api)]
use vstd::prelude::*;
use std::cmp;
use vstd::std_specs::cmp::OrdSpec;
verus! {

global size_of usize == 8;

#[allow(non_camel_case_types)]
pub type c_int = i32;
pub const RESERVED_SIZE: usize = 32;
pub const MAX_FDS_IN_CMSG: u32 = 64;
pub mod libc { pub const ENOBUFS: i32 = 105; }

#[verifier::external_type_specification]
#[verifier::external_body]
pub struct ExIoError(std::io::Error);

pub enum UnixError { Errno(c_int), ChannelClosed, IoError(std::io::Error) }

pub assume_specification<T: std::cmp::Ord> [std::cmp::min] (a: T, b: T) -> (r: T)
    ensures T::obeys_cmp_spec() ==> r == (if a.cmp_spec(&b) == std::cmp::Ordering::Greater { b } else { a });

// ---------------- ghost kernel ----------------
pub struct Packet { pub hdr: Option<nat>, pub data: Seq<u8>, pub fds: Seq<c_int> }
pub struct K { pub q: Map<c_int, Seq<Packet>>, pub peer: Map<c_int, c_int> }

pub open spec fn spec_frag(s: nat) -> nat { (s - 32) as nat }
pub open spec fn spec_first(s: nat) -> nat { ((((s - 40) as nat) / 8) * 8) as nat }

pub uninterp spec fn sys_sendbuf() -> nat;
#[verifier::external_body]
fn system_sendbuf_size() -> (r: usize) ensures r == sys_sendbuf() { unimplemented!() }

// ---------------- types (stand-ins for field access) ----------------
pub struct SharedFileDescriptor(pub c_int);
pub struct OsIpcSender { pub fd: std::sync::Arc<SharedFileDescriptor> }
#[verifier::external_body]
pub struct OsIpcReceiver { fd: std::cell::Cell<c_int> }
pub uninterp spec fn rx_fd(r: &OsIpcReceiver) -> c_int;
#[verifier::external_body]
fn rx_fd_get(r: &OsIpcReceiver) -> (x: c_int) ensures x == rx_fd(r) { unimplemented!() }

pub struct BackingStore { pub fd: c_int }
impl BackingStore { pub fn fd(&self) -> (r: c_int) ensures r == self.fd { self.fd } }
pub struct OsIpcSharedMemory { pub store: BackingStore }
pub enum OsIpcChannel { Sender(OsIpcSender), Receiver(OsIpcReceiver) }
impl OsIpcChannel {
    pub open spec fn spec_fd(&self) -> c_int {
        match *self { OsIpcChannel::Sender(s) => s.fd.0, OsIpcChannel::Receiver(r) => rx_fd(&r) }
    }
    #[verifier::external_body]
    fn fd(&self) -> (r: c_int) ensures r == self.spec_fd() { unimplemented!() }
}

pub open spec fn chan_fds(c: Seq<OsIpcChannel>) -> Seq<c_int> { c.map(|i: int, x: OsIpcChannel| x.spec_fd()) }
pub open spec fn region_fds(c: Seq<OsIpcSharedMemory>) -> Seq<c_int> { c.map(|i: int, x: OsIpcSharedMemory| x.store.fd) }

fn fragment_size(sendbuf_size: usize) -> (r: usize)
    requires sendbuf_size >= 32
    ensures r == spec_frag(sendbuf_size as nat)
{ sendbuf_size - RESERVED_SIZE }

fn first_fragment_size(sendbuf_size: usize) -> (r: usize)
    requires sendbuf_size >= 40
    ensures r == spec_first(sendbuf_size as nat)
{
    proof { assert(!8usize + 1 == 0xffff_ffff_ffff_fff8usize) by (bit_vector); }
    let x = fragment_size(sendbuf_size) - std::mem::size_of::<usize>();
    proof { assert(x & 0xffff_ffff_ffff_fff8usize == (x / 8) * 8) by (bit_vector); }
    (fragment_size(sendbuf_size) - std::mem::size_of::<usize>()) & (!8usize + 1)
}

fn get_max_fragment_size() -> (r: usize)
    requires sys_sendbuf() >= 40, sys_sendbuf() <= usize::MAX
    ensures r == spec_first(sys_sendbuf())
{ first_fragment_size(system_sendbuf_size()) }


pub open spec fn flat(q: Seq<Packet>) -> Seq<u8> decreases q.len() {
    if q.len() == 0 { Seq::empty() } else { flat(q.drop_last()) + q.last().data }
}
proof fn lemma_first_mono(a: nat, b: nat)
    requires 40 <= a <= b
    ensures spec_first(a) <= spec_first(b), spec_first(a) + 40 <= a
{
    assert(((a - 40) as nat) / 8 <= ((b - 40) as nat) / 8) by (nonlinear_arith) requires a - 40 <= b - 40, a >= 40;
    assert((((a - 40) as nat) / 8) * 8 <= a - 40) by (nonlinear_arith) requires a >= 40;
}
proof fn lemma_flat_push(q: Seq<Packet>, p: Packet)
    ensures flat(q.push(p)) == flat(q) + p.data
{
    assert(q.push(p).drop_last() == q);
}
pub open spec fn followups_ok(q: Seq<Packet>) -> bool {
    forall|i: int| 0 <= i < q.len() ==> (#[trigger] q[i]).hdr is None && q[i].fds.len() == 0 && 0 < q[i].data.len() <= spec_frag(sys_sendbuf())
}

#[verifier::external_body]
fn channel(Tracked(k): Tracked<&mut K>) -> (r: Result<(OsIpcSender, OsIpcReceiver), UnixError>)
    ensures
        r matches Ok((tx, rx)) ==> {
            &&& !old(k).q.dom().contains(rx_fd(&rx)) && !old(k).peer.dom().contains(tx.fd.0)
            &&& final(k).q == old(k).q.insert(rx_fd(&rx), Seq::empty())
            &&& final(k).peer == old(k).peer.insert(tx.fd.0, rx_fd(&rx))
        },
        r is Err ==> *final(k) == *old(k),
{ unimplemented!() }

#[verifier::external_body]
fn send_first_fragment(Tracked(k): Tracked<&mut K>, sender_fd: c_int, fds: &[c_int], data_buffer: &[u8], len: usize) -> (r: Result<(), UnixError>)
    requires
        old(k).peer.dom().contains(sender_fd), old(k).q.dom().contains(old(k).peer[sender_fd]),
        fds@.len() <= MAX_FDS_IN_CMSG,
        data_buffer@.len() <= spec_first(sys_sendbuf()),
    ensures
        r is Ok ==> final(k).peer == old(k).peer && final(k).q == old(k).q.insert(old(k).peer[sender_fd],
            old(k).q[old(k).peer[sender_fd]].push(Packet { hdr: Some(len as nat), data: data_buffer@, fds: fds@ })),
        r is Err ==> *final(k) == *old(k),
{ unimplemented!() }

#[verifier::external_body]
fn send_followup_fragment(Tracked(k): Tracked<&mut K>, sender_fd: c_int, data_buffer: &[u8]) -> (r: Result<(), UnixError>)
    requires
        old(k).peer.dom().contains(sender_fd), old(k).q.dom().contains(old(k).peer[sender_fd]),
        0 < data_buffer@.len() <= spec_frag(sys_sendbuf()),
    ensures
        r is Ok ==> final(k).peer == old(k).peer && final(k).q == old(k).q.insert(old(k).peer[sender_fd],
            old(k).q[old(k).peer[sender_fd]].push(Packet { hdr: None, data: data_buffer@, fds: Seq::empty() })),
        r is Err ==> *final(k) == *old(k),
{ unimplemented!() }

fn downsize(sendbuf_size: &mut usize, sent_size: usize) -> (r: Result<(), ()>)
    requires sent_size + 32 <= *old(sendbuf_size)
    ensures
        r is Ok <==> sent_size > 2000,
        r is Ok ==> 1000 <= *final(sendbuf_size) < sent_size && *final(sendbuf_size) <= *old(sendbuf_size) / 2,
        r is Err ==> *final(sendbuf_size) == *old(sendbuf_size),
{
            if sent_size > 2000 {
                *sendbuf_size /= 2;
                // Make certain we end up with less than what we tried before...
                if *sendbuf_size >= sent_size {
                    *sendbuf_size = sent_size / 2;
                }
                Ok(())
            } else {
                Err(())
            }
}

pub open spec fn send_ok_post(k0: K, k1: K, main_tx: c_int, data: Seq<u8>, fds_in: Seq<c_int>) -> bool {
    let mrx = k0.peer[main_tx];
    let mq = k1.q[mrx];
    &&& mq.len() == k0.q[mrx].len() + 1
    &&& mq.drop_last() == k0.q[mrx]
    &&& mq.last().hdr == Some(data.len())
    &&& mq.last().data.len() <= spec_first(sys_sendbuf())
    &&& if mq.last().data.len() == data.len() {
            &&& mq.last().data == data
            &&& mq.last().fds == fds_in
            &&& k1.q == k0.q.insert(mrx, mq)
        } else {
            let ded = mq.last().fds.last();
            &&& mq.last().fds == fds_in.push(ded)
            &&& !k0.q.dom().contains(ded)
            &&& k1.q == k0.q.insert(ded, k1.q[ded]).insert(mrx, mq)
            &&& followups_ok(k1.q[ded])
            &&& mq.last().data + flat(k1.q[ded]) == data
        }
}

fn send(this: &OsIpcSender, data: &[u8], channels: Vec<OsIpcChannel>, shared_memory_regions: Vec<OsIpcSharedMemory>, Tracked(k): Tracked<&mut K>) -> (r: Result<(), UnixError>)
    requires
        48 <= sys_sendbuf() <= isize::MAX, data@.len() <= isize::MAX,
        old(k).peer.dom().contains(this.fd.0), old(k).q.dom().contains(old(k).peer[this.fd.0]),
        channels@.len() + shared_memory_regions@.len() < MAX_FDS_IN_CMSG,   // C15: not established by the code
    ensures
        r is Ok ==> send_ok_post(*old(k), *final(k), this.fd.0, data@, chan_fds(channels@) + region_fds(shared_memory_regions@)),
{
        let ghost k0 = *k;
        let mut fds = Vec::new();
        for channel in it: channels.iter()
            invariant fds@ == chan_fds(channels@).subrange(0, it.index()), *k == k0
        {
            fds.push(channel.fd());
        }
        for shared_memory_region in it: shared_memory_regions.iter()
            invariant fds@ == chan_fds(channels@) + region_fds(shared_memory_regions@).subrange(0, it.index()), *k == k0
        {
            fds.push(shared_memory_region.store.fd());
        }
        let ghost fds_in = fds@;
        assert(fds_in == chan_fds(channels@) + region_fds(shared_memory_regions@));

        let mut sendbuf_size = system_sendbuf_size();
        proof { assert(fds@.subrange(0, fds@.len() as int) == fds@); }

        // If the message is small enough, try sending it in a single fragment.
        if data.len() <= get_max_fragment_size() {
            match send_first_fragment(Tracked(&mut *k), this.fd.0, &fds[..], data, data.len()) {
                Ok(_) => {
                    proof {
                        let mrx0 = k0.peer[this.fd.0];
                        assert(k.q[mrx0].drop_last() == k0.q[mrx0]);
                        assert(fds@ == fds_in);
                        assert(k.q[mrx0].last().data == data@);
                        assert(k.q == k0.q.insert(mrx0, k.q[mrx0]));
                    }
                    return Ok(())
                },
                Err(error) => {
                    if !(matches!(error, UnixError::Errno(libc::ENOBUFS))
                        && downsize(&mut sendbuf_size, data.len()).is_ok())
                    {
                        return Err(error);
                    }
                },
            }
        }

        proof { lemma_first_mono(sendbuf_size as nat, sys_sendbuf()); }
        let (dedicated_tx, dedicated_rx) = channel(Tracked(&mut *k))?;
        // Extract FD handle without consuming the Receiver, so the FD doesn't get closed.
        fds.push(rx_fd_get(&dedicated_rx));
        let ghost ded = rx_fd(&dedicated_rx);
        let ghost mrx = k0.peer[this.fd.0];
        let ghost k1 = *k;

        // Split up the packet into fragments.
        let mut byte_position = 0;
        while byte_position < data.len()
            invariant
                48 <= sys_sendbuf() <= isize::MAX, data@.len() <= isize::MAX,
                1000 <= sendbuf_size <= sys_sendbuf() || sendbuf_size == sys_sendbuf(),
                sendbuf_size <= sys_sendbuf(),
                byte_position <= data.len(),
                fds@ == fds_in.push(ded), fds_in.len() < MAX_FDS_IN_CMSG,
                k1.peer == k0.peer.insert(dedicated_tx.fd.0, ded), k1.q == k0.q.insert(ded, Seq::empty()),
                !k0.q.dom().contains(ded), !k0.peer.dom().contains(dedicated_tx.fd.0),
                k0.peer.dom().contains(this.fd.0), k0.q.dom().contains(mrx), mrx == k0.peer[this.fd.0],
                k.peer == k1.peer,
                byte_position == 0 ==> *k == k1 && spec_first(sendbuf_size as nat) < data.len(),
                byte_position > 0 ==> {
                    let mq = k.q[mrx];
                    &&& mq == k0.q[mrx].push(mq.last())
                    &&& mq.last().hdr == Some(data@.len())
                    &&& mq.last().fds == fds@
                    &&& 0 < mq.last().data.len() <= spec_first(sys_sendbuf())
                    &&& mq.last().data.len() < data.len()
                    &&& k.q == k0.q.insert(ded, k.q[ded]).insert(mrx, mq)
                    &&& followups_ok(k.q[ded])
                    &&& mq.last().data + flat(k.q[ded]) == data@.subrange(0, byte_position as int)
                },
            decreases data.len() - byte_position, sendbuf_size
        {
            let end_byte_position;
            let ghost kb = *k;
            proof { assert(fds@.subrange(0, fds@.len() as int) == fds@); }
            let result = if byte_position == 0 {
                end_byte_position = first_fragment_size(sendbuf_size);
                send_first_fragment(Tracked(&mut *k), this.fd.0, &fds[..], &data[..end_byte_position], data.len())
            } else {
                end_byte_position = cmp::min(
                    byte_position + fragment_size(sendbuf_size),
                    data.len(),
                );
                send_followup_fragment(Tracked(&mut *k), dedicated_tx.fd.0, &data[byte_position..end_byte_position])
            };

            if let Err(error) = result {
                let ghost sb0 = sendbuf_size;
                proof { lemma_first_mono(sendbuf_size as nat, sys_sendbuf()); }
                if matches!(error, UnixError::Errno(libc::ENOBUFS))
                    && downsize(&mut sendbuf_size, end_byte_position - byte_position).is_ok()
                {
                    proof { lemma_first_mono(sendbuf_size as nat, sb0 as nat); }
                    continue;
                } else {
                    return Err(error);
                }
            }

            proof {
                let mq = k.q[mrx];
                if byte_position == 0 {
                    assert(k.q[ded] =~= Seq::<Packet>::empty());
                    assert(flat(k.q[ded]) =~= Seq::<u8>::empty());
                    assert(mq.last().data =~= data@.subrange(0, end_byte_position as int));
                    assert(mq.last().data + flat(k.q[ded]) =~= data@.subrange(0, end_byte_position as int));
                } else {
                    let oldq = k.q[ded].drop_last();
                    let p = k.q[ded].last();
                    assert(mrx != ded);
                    assert(k.q[ded] == kb.q[ded].push(p));
                    assert(oldq =~= kb.q[ded]);
                    assert(k.q[mrx] == kb.q[mrx]);
                    assert(mq.last().data + flat(kb.q[ded]) == data@.subrange(0, byte_position as int));
                    assert(k.q[ded] =~= oldq.push(p));
                    lemma_flat_push(oldq, p);
                    let a = mq.last().data;
                    assert(p.data =~= data@.subrange(byte_position as int, end_byte_position as int));
                    assert(a + (flat(oldq) + p.data) =~= (a + flat(oldq)) + p.data);
                    assert(data@.subrange(0, byte_position as int) + data@.subrange(byte_position as int, end_byte_position as int) =~= data@.subrange(0, end_byte_position as int));
                }
            }
            byte_position = end_byte_position;
            proof {
                let mq = k.q[mrx];
                assert(mq == k0.q[mrx].push(mq.last()));
                assert(mq.last().hdr == Some(data@.len()));
                assert(mq.last().fds == fds@);
                assert(0 < mq.last().data.len() <= spec_first(sys_sendbuf()));
                assert(mq.last().data.len() < data.len());
                assert(k.q == k0.q.insert(ded, k.q[ded]).insert(mrx, mq));
                assert(followups_ok(k.q[ded]));
                assert(mq.last().data + flat(k.q[ded]) == data@.subrange(0, byte_position as int));
            }
        }

        proof {
            assert(data@.subrange(0, data@.len() as int) == data@);
            assert(k.q[mrx].drop_last() == k0.q[mrx]);
        }
        Ok(())
}
} // verus!
fn main() {}
