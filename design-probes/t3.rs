use vstd::prelude::*;
use std::sync::Arc;
use std::cell::Cell;
use std::marker::PhantomData;
verus! {
pub type c_int = i32;
pub struct SharedFileDescriptor(pub c_int);
pub struct OsIpcSender {
    fd: Arc<SharedFileDescriptor>,
    nosync_marker: PhantomData<Cell<()>>,
}
pub struct OsIpcReceiver {
    fd: Cell<c_int>,
}
fn f(s: &OsIpcSender) -> c_int { s.fd.0 }
fn g(r: &OsIpcReceiver) -> c_int { r.fd.get() }
}
fn main() {}
