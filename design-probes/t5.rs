use vstd::prelude::*;
use std::collections::HashMap;
verus! {
fn a(x: u8) { assert!(x < 5); }
fn b(v: &mut Vec<u8>) -> u8 { v.pop().unwrap() }
fn c(x: Option<u8>) -> u8 { x.expect("boo") }
fn d(x: u8) { if x > 3 { panic!("no {}", x); } }
fn e(m: &mut HashMap<u64, u64>, k: u64) -> u64 { let _ = m.remove(&k).unwrap(); *m.get(&k).unwrap() }
}
fn main() {}
