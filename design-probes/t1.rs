use vstd::prelude::*;
use std::cmp;
use vstd::std_specs::cmp::OrdSpec;
verus! {

pub const RESERVED_SIZE: usize = 32;

#[verifier::external_type_specification]
#[verifier::external_body]
pub struct ExIoError(std::io::Error);

pub enum UnixError {
    Errno(i32),
    ChannelClosed,
    IoError(std::io::Error),
}

pub const ENOBUFS: i32 = 105;

fn fragment_size(sendbuf_size: usize) -> (r: usize)
    requires sendbuf_size >= RESERVED_SIZE
    ensures r == sendbuf_size - RESERVED_SIZE
{
    sendbuf_size - RESERVED_SIZE
}

fn first_fragment_size(sendbuf_size: usize) -> (r: usize)
    requires sendbuf_size >= 40
    ensures r % 8 == 0, r + 40 <= sendbuf_size, r + 48 > sendbuf_size
{
    let r = (fragment_size(sendbuf_size) - std::mem::size_of::<usize>()) & (!8usize + 1);
    assert(r % 8 == 0 && r <= (sendbuf_size - 40) as usize && r + 8 > (sendbuf_size - 40) as usize) by (bit_vector)
      requires r == ((sendbuf_size - 40) as usize) & (!8usize + 1) as usize;
    r
}

fn downsize(sendbuf_size: &mut usize, sent_size: usize) -> (r: Result<(), ()>)
    ensures
        r.is_ok() <==> sent_size > 2000,
        r.is_ok() ==> *final(sendbuf_size) < sent_size && *final(sendbuf_size) >= 1000 && *final(sendbuf_size) <= *old(sendbuf_size) / 2,
        r.is_err() ==> *final(sendbuf_size) == *old(sendbuf_size),
{
    if sent_size > 2000 {
        *sendbuf_size /= 2;
        // Make certain we end up with less than what we tried before...
        if *sendbuf_size >= sent_size {
            *sendbuf_size = sent_size / 2;
        }
        Ok(())
    } else {
        Err(())
    }
}

fn test_matches(e: UnixError) -> bool {
    matches!(e, UnixError::Errno(ENOBUFS))
}

fn test_slice(data: &[u8], a: usize, b: usize) -> (r: &[u8])
    requires a <= b <= data.len()
{
    &data[a..b]
}

pub assume_specification<T: std::cmp::Ord> [std::cmp::min] (a: T, b: T) -> (r: T)
    ensures T::obeys_cmp_spec() ==> r == (if a.cmp_spec(&b) == std::cmp::Ordering::Greater { b } else { a });

fn test_min(a: usize, b: usize) -> (r: usize)
 ensures r <= a, r <= b, r == a || r == b
{
    cmp::min(a, b)
}

} // verus!
fn main() {}
