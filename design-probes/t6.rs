use vstd::prelude::*;
use std::mem;
verus! {
pub assume_specification<T> [std::mem::replace] (dest: &mut T, src: T) -> (r: T)
    ensures r == *old(dest), *final(dest) == src;
pub struct OsIpcChannel { pub fd: i32 }
#[verifier::external_body]
fn take_vec<T>(dest: &mut Vec<T>) -> (r: Vec<T>) ensures r@ == old(dest)@, final(dest)@ == Seq::<T>::empty() { std::mem::take(dest) }

pub struct Tls { pub ser_channels: Vec<OsIpcChannel> }
pub struct BErr;
pub struct OsIpcSender { pub fd: i32 }

#[verifier::external_body]
fn bincode_serialize_into<T>(bytes: &mut Vec<u8>, data: &T, tls: &mut Tls) -> (r: Result<(), BErr>)
{ unimplemented!() }

#[verifier::external_body]
fn os_send(s: &OsIpcSender, bytes: &[u8], ch: Vec<OsIpcChannel>) -> (r: Result<(), BErr>) { unimplemented!() }

fn send<T>(this: &OsIpcSender, data: T, tls: &mut Tls) -> (r: Result<(), BErr>)
    ensures final(tls).ser_channels@ == old(tls).ser_channels@
{
    let mut bytes = Vec::with_capacity(4096);
    {
        let os_ipc_channels_for_serialization = &mut tls.ser_channels;
        let old_os_ipc_channels = take_vec(&mut *os_ipc_channels_for_serialization);
        let os_ipc_channels;
        {
            bincode_serialize_into(&mut bytes, &data, tls)?;
            os_ipc_channels = mem::replace(&mut tls.ser_channels, old_os_ipc_channels);
        };
        Ok(os_send(this, &bytes[..], os_ipc_channels)?)
    }
}
}
fn main() {}
