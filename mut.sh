#!/bin/bash
# usage: mut.sh <prop> <file> <old> <new>   (dev helper: run a check on a mutated scratch copy; ALWAYS restores the scratch tree)
W=/tmp/wt1
git -C $W checkout -q -- . ; git -C $W clean -fdq -e target
trap 'git -C $W checkout -q -- . ; git -C $W clean -fdq -e target' EXIT
python3 - "$W/$2" "$3" "$4" <<'PY' || exit 3
import sys
p,old,new=sys.argv[1:4]
s=open(p).read()
assert s.count(old)>=1, "pattern not found"
s=s.replace(old,new,1)
open(p,'w').write(s)
PY
VERIF_EVIDENCE_DIR=/tmp/seed_evidence VERIF_REPLAY_DIR=/tmp/seed_replays VERIF_REPO=$W ./check $1 --tier quick; echo "exit=$?"
