#!/bin/bash
# usage: mut.sh <prop> <file> <python-replace-old> <python-replace-new>   (dev helper: run a check on a mutated scratch copy)
set -e
W=/tmp/wt1
git -C $W checkout -q -- .
python3 - "$W/$2" "$3" "$4" <<'PY'
import sys
p,old,new=sys.argv[1:4]
s=open(p).read()
assert s.count(old)>=1, "pattern not found"
s=s.replace(old,new,1)
open(p,'w').write(s)
PY
VERIF_REPO=$W ./check $1 --tier quick; echo "exit=$?"
git -C $W checkout -q -- .
