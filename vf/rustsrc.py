"""Minimal Rust source scanner: comment/string aware token offsets, item lookup.

This is not a parser.  It knows enough lexical structure (line/block comments,
string / raw-string / byte-string / char literals, lifetimes, bracket nesting)
to find `fn` items by path (`impl Foo :: fn bar :: fn nested`) in a source file
and to split one into attributes / signature / body, so that the *text* of the
item can be copied verbatim.
"""
import re


class ScanError(Exception):
    pass


def mask(src):
    """Return a string of the same length as `src` in which the contents of
    comments, string literals and char literals are replaced by spaces
    (newlines kept).  Bracket matching and keyword search run on the mask,
    slicing runs on the original."""
    out = list(src)
    i, n = 0, len(src)

    def blank(a, b):
        for j in range(a, b):
            if out[j] != "\n":
                out[j] = " "

    while i < n:
        c = src[i]
        if c == "/" and i + 1 < n and src[i + 1] == "/":
            j = src.find("\n", i)
            j = n if j < 0 else j
            blank(i, j)
            i = j
        elif c == "/" and i + 1 < n and src[i + 1] == "*":
            depth, j = 1, i + 2
            while j < n and depth:
                if src.startswith("/*", j):
                    depth += 1
                    j += 2
                elif src.startswith("*/", j):
                    depth -= 1
                    j += 2
                else:
                    j += 1
            blank(i, j)
            i = j
        elif c == '"' or (c in "br" and re.match(r'(b?r#*"|b")', src[i:i + 12]) and (i == 0 or not (src[i - 1].isalnum() or src[i - 1] == "_"))):
            m = re.match(r'(b?)(r(#*))?"', src[i:])
            if m.group(2) is not None:
                closing = '"' + m.group(3)
                j = src.find(closing, i + m.end())
                if j < 0:
                    raise ScanError("unterminated raw string at %d" % i)
                j += len(closing)
            else:
                j = i + m.end()
                while j < n and src[j] != '"':
                    j += 2 if src[j] == "\\" else 1
                j += 1
            blank(i + m.end(), j - 1)
            i = j
        elif c == "'":
            # char literal or lifetime
            m = re.match(r"'(\\.[^']*|[^\\'])'", src[i:])
            if m:
                blank(i + 1, i + m.end() - 1)
                i += m.end()
            else:
                i += 1
        else:
            i += 1
    return "".join(out)


OPEN = {"(": ")", "[": "]", "{": "}"}
CLOSE = {v: k for k, v in OPEN.items()}


def match_close(m, i):
    """m: masked text, i: index of an opening bracket -> index of its closer."""
    stack = []
    n = len(m)
    j = i
    while j < n:
        c = m[j]
        if c in OPEN:
            stack.append(c)
        elif c in CLOSE:
            if not stack or stack[-1] != CLOSE[c]:
                raise ScanError("bracket mismatch at %d" % j)
            stack.pop()
            if not stack:
                return j
        j += 1
    raise ScanError("unclosed bracket at %d" % i)


def depth0_find(m, start, end, pred):
    """first index in [start,end) at bracket depth 0 where pred(m, idx)."""
    depth = 0
    j = start
    while j < end:
        c = m[j]
        if depth == 0 and pred(m, j):
            return j
        if c in OPEN:
            depth += 1
        elif c in CLOSE:
            depth -= 1
        j += 1
    return -1


class FnItem:
    """Offsets are into the file text `src`."""

    def __init__(self, src, m, name, attr_start, fn_kw, params_open, params_close, body_open, body_close, path):
        self.src, self.m, self.name, self.path = src, m, name, path
        self.attr_start = attr_start      # start of leading attributes / doc comments
        self.fn_kw = fn_kw                # offset of `fn`
        self.sig_start = None             # offset of first qualifier (pub/unsafe/const) — set below
        self.params_open, self.params_close = params_open, params_close
        self.body_open, self.body_close = body_open, body_close

    @property
    def text(self):
        return self.src[self.sig_start:self.body_close + 1]

    @property
    def line(self):
        return self.src.count("\n", 0, self.sig_start) + 1

    @property
    def end_line(self):
        return self.src.count("\n", 0, self.body_close) + 1


QUAL = re.compile(r"(pub(\s*\([^)]*\))?\s+|unsafe\s+|const\s+|async\s+|extern\s+\"[^\"]*\"\s+)*$")


def _fn_at(src, m, kw, path):
    """kw = offset of `fn` keyword in masked text."""
    mm = re.compile(r"fn\s+([A-Za-z_][A-Za-z0-9_]*)").match(m, kw)
    if not mm:
        return None
    name = mm.group(1)
    # parameter list: first '(' at depth 0 after the name (generics in <> do not contain parens normally)
    j = mm.end()
    po = m.find("(", j)
    if po < 0:
        return None
    pc = match_close(m, po)
    # body: first '{' at bracket depth 0 after params, or ';' (declaration)
    bo = depth0_find(m, pc + 1, len(m), lambda mm_, x: mm_[x] in "{;")
    if bo < 0 or m[bo] == ";":
        return None
    bc = match_close(m, bo)
    # qualifiers before fn
    line_start = m.rfind("\n", 0, kw) + 1
    pre = m[line_start:kw]
    q = QUAL.search(pre)
    sig_start = line_start + (q.start() if q else len(pre))
    # walk back over attribute / doc-comment lines (in the original text)
    a = line_start
    while a > 0:
        prev_start = src.rfind("\n", 0, a - 1) + 1
        s = src[prev_start:a].strip()
        if s.startswith("#[") or s.startswith("///") or s.startswith("//!"):
            a = prev_start
        else:
            break
    it = FnItem(src, m, name, a, kw, po, pc, bo, bc, path)
    it.sig_start = sig_start
    return it


KW_FN = re.compile(r"\bfn\s+[A-Za-z_]")
KW_IMPL = re.compile(r"\bimpl\b")


def _block_items(src, m, start, end):
    """Yield ('impl', header_text, body_open, body_close) and ('fn', FnItem)
    for items whose keyword sits at bracket depth 0 within [start, end)."""
    j = start
    depth = 0
    while j < end:
        c = m[j]
        if depth == 0:
            if KW_FN.match(m, j) and (j == 0 or not (m[j - 1].isalnum() or m[j - 1] == "_")):
                it = _fn_at(src, m, j, None)
                if it:
                    yield ("fn", it)
                    j = it.body_close + 1
                    continue
            if m.startswith("impl", j) and (j == 0 or not (m[j - 1].isalnum() or m[j - 1] == "_")) and not (m[j + 4].isalnum() or m[j + 4] == "_"):
                bo = depth0_find(m, j, end, lambda mm_, x: mm_[x] in "{;")
                if bo >= 0 and m[bo] == "{":
                    bc = match_close(m, bo)
                    yield ("impl", " ".join(m[j:bo].split()), bo, bc)
                    j = bc + 1
                    continue
            if m.startswith("mod", j) and (j == 0 or not (m[j - 1].isalnum() or m[j - 1] == "_")) and m[j + 3].isspace():
                bo = depth0_find(m, j, end, lambda mm_, x: mm_[x] in "{;")
                if bo >= 0 and m[bo] == "{":
                    bc = match_close(m, bo)
                    yield ("mod", " ".join(m[j:bo].split()), bo, bc)
                    j = bc + 1
                    continue
        if c in OPEN:
            depth += 1
        elif c in CLOSE:
            depth -= 1
        j += 1


def find_fn(src, path, m=None):
    """path: list like ['impl OsIpcSender', 'send'] or ['recv'] or
    ['impl OsIpcSender', 'send', 'downsize'] (nested fn).  impl headers are
    matched on whitespace-normalised text (exact)."""
    m = m or mask(src)
    start, end = 0, len(src)
    cur = None
    for k, seg in enumerate(path):
        found = None
        for it in _block_items(src, m, start, end):
            if re.match(r"(impl|mod)\b", seg) and not re.match(r"[A-Za-z_][A-Za-z0-9_]*$", seg):
                if it[0] in ("impl", "mod") and it[1] == " ".join(seg.split()):
                    found = it
                    break
            elif it[0] == "fn" and it[1].name == seg:
                found = it
                break
        if found is None:
            raise ScanError("item path %r: segment %r not found" % (path, seg))
        if found[0] in ("impl", "mod"):
            start, end = found[2] + 1, found[3]
        else:
            cur = found[1]
            cur.path = path[:k + 1]
            start, end = cur.body_open + 1, cur.body_close
    if cur is None:
        raise ScanError("item path %r does not end in a fn" % (path,))
    return cur


def nested_fns(src, m, body_open, body_close):
    """fn items declared anywhere inside a body (any depth), outermost only."""
    res = []
    j = body_open + 1
    while j < body_close:
        if KW_FN.match(m, j) and not (m[j - 1].isalnum() or m[j - 1] == "_"):
            it = _fn_at(src, m, j, None)
            if it:
                res.append(it)
                j = it.body_close + 1
                continue
        j += 1
    return res


LOOP_KW = re.compile(r"\b(for|while|loop)\b")


def loops_in(m, start, end, skip_ranges=()):
    """Offsets (kw_offset, kw, body_open, body_close) of loops in source order
    in m[start:end], skipping the given (a,b) ranges (nested fn items)."""
    res = []
    for mm in LOOP_KW.finditer(m, start, end):
        o = mm.start()
        if any(a <= o <= b for a, b in skip_ranges):
            continue
        kw = mm.group(1)
        if kw == "for":
            # `for<'a>` HRTB or `impl X for Y` are not loops
            rest = m[mm.end():mm.end() + 2]
            if rest.lstrip().startswith("<"):
                continue
            # must be followed eventually by ' in ' before the '{'
        from_ = mm.end()
        if kw == "for":
            # the pattern may contain braces (`for &P { a, b } in xs {`): the body's brace is the first one after the depth-0 `in`
            ip = depth0_find(m, mm.end(), end, lambda mm_, x: mm_.startswith("in", x) and mm_[x - 1].isspace() and mm_[x + 2].isspace())
            if ip < 0:
                continue
            from_ = ip + 2
        bo = depth0_find(m, from_, end, lambda mm_, x: mm_[x] == "{")
        if bo < 0:
            continue
        if kw == "for" and ";" in m[mm.end():bo]:
            continue
        bc = match_close(m, bo)
        res.append((o, kw, bo, bc))
    return res
