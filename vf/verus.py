"""Run Verus on a generated unit file and attribute diagnostics to obligations."""
import json
import os
import re
import subprocess
import time


class VerusResult:
    pass


def run_verus(path, rlimit=None, seed=None, multiple_errors=50, threads=16, timeout=900, extra=()):
    cmd = ["verus", path, "--error-format=json", "--multiple-errors", str(multiple_errors),
           "--output-json", "--time", "--num-threads", str(threads)]
    if rlimit:
        cmd += ["--rlimit", str(rlimit)]
    if seed is not None:
        cmd += ["--smt-option", "smt.random_seed=%d" % seed]
    cmd += list(extra)
    t0 = time.time()
    env = dict(os.environ)
    env.setdefault("CARGO_NET_OFFLINE", "true")
    try:
        p = subprocess.run(cmd, capture_output=True, text=True, timeout=timeout, env=env, cwd=os.path.dirname(path))
        out, err, rc = p.stdout, p.stderr, p.returncode
    except subprocess.TimeoutExpired as e:
        out, err, rc = (e.stdout or b"").decode() if isinstance(e.stdout, bytes) else (e.stdout or ""), "TIMEOUT", -9
    r = VerusResult()
    r.cmd = " ".join(cmd)
    r.wall = time.time() - t0
    r.rc = rc
    r.raw_stdout, r.raw_stderr = out, err
    r.diags = []
    r.compile_errors = []
    r.notes = []
    for ln in err.splitlines():
        ln = ln.strip()
        if not ln.startswith("{"):
            continue
        try:
            d = json.loads(ln)
        except Exception:
            continue
        if d.get("$message_type") != "diagnostic":
            continue
        lvl = d.get("level")
        msg = d.get("message", "")
        if lvl == "error":
            if msg.startswith("aborting due to"):
                continue
            r.diags.append(d)
        elif lvl in ("note", "warning") and ("rlimit" in msg or "Resource limit" in msg):
            r.notes.append(d)
    r.json = None
    # stdout holds the --output-json object (possibly preceded by other text)
    i = out.find("{")
    if i >= 0:
        try:
            r.json = json.loads(out[i:])
        except Exception:
            r.json = None
    r.verified = r.errors = None
    r.fn_times = {}
    r.smt_ms = 0
    if r.json:
        vr = r.json.get("verification-results", {})
        r.verified, r.errors = vr.get("verified"), vr.get("errors")
        r.encountered_vir_error = vr.get("encountered-vir-error", False)
        tm = r.json.get("times-ms", {})
        r.smt_ms = tm.get("smt", {}).get("total", 0) if isinstance(tm.get("smt"), dict) else 0
        r.total_ms = tm.get("total", 0)
        try:
            for mod in tm["smt"]["smt-run-module-times"]:
                for fb in mod.get("function-breakdown", []):
                    r.fn_times[fb["function"]] = {"ms": fb.get("time", 0), "rlimit": fb.get("rlimit"), "ok": fb.get("success")}
        except Exception:
            pass
    return r


VERIF_MSGS = (
    "postcondition not satisfied", "precondition not satisfied", "assertion failed", "invariant not satisfied",
    "possible arithmetic underflow/overflow", "possible division by zero", "decreases not satisfied",
    "loop invariant not satisfied", "recommendation not met", "possible bit shift underflow/overflow",
    "could not prove termination", "unreachable", "panic", "cannot show invariant", "index out of bounds",
    "Resource limit (rlimit) exceeded", "bit_vector", "nonlinear", "could not show", "failed",
)


def is_verification_failure(d):
    """Distinguish proof failures from compile errors (type errors, unsupported constructs)."""
    msg = d.get("message", "")
    if d.get("code"):
        return False            # rustc error code => compile error
    low = msg.lower()
    if "not supported" in low or "unsupported" in low or "cannot find" in low or "mismatched types" in low:
        return False
    if "verus internal error" in low or "the verus" in low and "does not" in low:
        return False
    for m in VERIF_MSGS:
        if m.lower() in low:
            return True
    return False


def is_rlimit(d):
    return "rlimit" in d.get("message", "").lower() or "resource limit" in d.get("message", "").lower()
