#!/bin/bash
# dev helper: build scratch crate from $REPO (default /repo) and run the given harness(es)
set -e
REPO=${REPO:-/repo}
W=${KWORK:-/var/tmp/ipcverif-kani-dev}
mkdir -p $W
rsync -a --delete --exclude target --exclude .git $REPO/src $W/
python3 - "$REPO/Cargo.toml" "$W/Cargo.toml" <<'PY'
import sys,re
s=open(sys.argv[1]).read()
s=re.sub(r"\[\[bench\]\]\nname = \"[^\"]*\"\nharness = false\n+","",s)
open(sys.argv[2],"w").write(s)
PY
cp $REPO/Cargo.lock $W/
python3 -c "import sys; sys.path.insert(0,'/verif'); from vf import kani; sys.stdout.write(kani.expand_extracts(open('/verif/kani/harness_unix.rs').read(), '$REPO'))" >> $W/src/platform/unix/mod.rs
cd $W
H=""
for h in "$@"; do H="$H --harness $h"; done
CARGO_NET_OFFLINE=true timeout 900 cargo kani -Z stubbing -Z function-contracts $H 2>&1
