"""Kani route: loop-free harnesses on the REAL crate (scratch copy + appended #[cfg(kani)] module)."""
import fcntl
import resource
import hashlib
import os
import re
import shutil
import subprocess
import time

from . import core

CACHE_ROOT = os.environ.get("VERIF_KANI_CACHE", "/var/tmp/ipcverif-kani-cache")


class KaniUnit:
    def __init__(self, name, harness_file, append_to, harnesses, props, id_props, safety_props, quick=True, assumptions=(), timeout=240, replay=()):
        """harnesses: list of harness fn names; id_props: list of (assert-id prefix, [props]) - first match wins."""
        self.name, self.harness_file, self.append_to = name, harness_file, append_to
        self.harnesses, self.props, self.id_props = list(harnesses), tuple(props), list(id_props)
        self.safety_props, self.quick, self.assumptions, self.timeout = tuple(safety_props), quick, list(assumptions), timeout
        self.replay = list(replay)     # (assert-id prefix, scenario, [names of the leading kani::any() values to pass as args])

    def props_of(self, aid):
        for pre, props in self.id_props:
            if aid.startswith(pre):
                return tuple(props)
        return tuple(self.safety_props)


def _harness_bodies(text):
    """map harness fn name -> its source text (brace matched)."""
    res = {}
    for m in re.finditer(r"#\[kani::proof\](?:\s*#\[[^\]]*\])*\s*fn\s+(\w+)\s*\(\)\s*\{", text):
        i = m.end() - 1
        depth = 0
        j = i
        while j < len(text):
            if text[j] == "{":
                depth += 1
            elif text[j] == "}":
                depth -= 1
                if depth == 0:
                    break
            j += 1
        res[m.group(1)] = text[m.start():j + 1]
    return res


def expand_extracts(harness, repo):
    """`//@@EXTRACT <file> :: <seg> :: <seg> ...` lines are replaced by the verbatim text of that fn item of /repo's
    working tree (used for nested fns, which a harness cannot name): mechanical extraction on every run."""
    from . import rustsrc
    def repl(m):
        parts = [x.strip() for x in m.group(1).split(" :: ")]
        src = open(os.path.join(repo, parts[0])).read()
        try:
            it = rustsrc.find_fn(src, parts[1:])
        except rustsrc.ScanError as e:
            raise core.Undecided("kani harness: anchor lost: %s" % e)
        return "    // ---- verbatim copy of %s lines %d-%d ----\n    %s\n    // ---- end of verbatim copy ----" % (m.group(1), it.line, it.end_line, it.text)
    return re.sub(r"^[ \t]*//@@EXTRACT (.+)$", repl, harness, flags=re.M)


def prepare_crate(repo, verif, unit):
    lock_path = os.path.join(repo, "Cargo.lock")
    if not os.path.exists(lock_path):      # Cargo.lock is git-ignored in this repository: a fresh worktree has none
        lock_path = "/repo/Cargo.lock"
    lock = open(lock_path, "rb").read()
    key = hashlib.sha256(lock).hexdigest()[:12]
    d = os.path.join(CACHE_ROOT, key)
    os.makedirs(d, exist_ok=True)
    lf = open(os.path.join(d, ".lock"), "w")
    fcntl.flock(lf, fcntl.LOCK_EX)
    # copy the real sources (working tree), add-only harness module
    src = os.path.join(d, "src")
    if os.path.exists(src):
        shutil.rmtree(src)
    shutil.copytree(os.path.join(repo, "src"), src)
    toml = open(os.path.join(repo, "Cargo.toml")).read()
    toml = re.sub(r"\[\[bench\]\]\nname = \"[^\"]*\"\nharness = false\n+", "", toml)
    open(os.path.join(d, "Cargo.toml"), "w").write(toml)
    open(os.path.join(d, "Cargo.lock"), "wb").write(lock)
    os.makedirs(os.path.join(d, ".cargo"), exist_ok=True)
    open(os.path.join(d, ".cargo", "config.toml"), "w").write("[net]\noffline = true\n")
    harness = open(os.path.join(verif, unit.harness_file)).read()
    harness = expand_extracts(harness, repo)
    target = os.path.join(d, unit.append_to)
    orig = open(target).read()
    open(target, "w").write(orig + harness)
    return d, lf, harness, len(orig.split("\n"))


def run_kani_unit(unit, workdir, tier, seed):
    t0 = time.time()
    ur = core.UnitRun()
    ur.backend = "Kani 0.68.0 (CBMC 6.11, CaDiCaL)"
    d, lf, harness_text, orig_lines = prepare_crate(core.REPO, core.VERIF, unit)
    try:
        bodies = _harness_bodies(harness_text)
        missing = [h for h in unit.harnesses if h not in bodies]
        if missing:
            raise core.Undecided("kani unit %s: harness(es) %s not found in %s" % (unit.name, missing, unit.harness_file))
        env = dict(os.environ)
        env["CARGO_NET_OFFLINE"] = "true"
        env["CARGO_TARGET_DIR"] = os.path.join(d, "target")
        cmd = ["cargo", "kani", "-Z", "stubbing", "-Z", "function-contracts", "-j", "8", "--output-format", "terse"]
        for h in unit.harnesses:
            cmd += ["--harness", h]
        try:
            p = subprocess.run(cmd, cwd=d, env=env, capture_output=True, text=True, timeout=unit.timeout + 120, preexec_fn=_limit_memory)
            out = p.stdout + "\n" + p.stderr
        except subprocess.TimeoutExpired:
            _kill_cbmc()
            raise core.Undecided("kani unit %s: time limit exceeded (%ds)" % (unit.name, unit.timeout + 120))
        ur.cmds.append("(scratch copy of /repo + appended %s) %s" % (unit.harness_file, " ".join(cmd)))
        if "Manual Harness Summary" not in out and "Complete - " not in out:
            tail = out[-1500:].replace("\n", " | ")
            raise core.Undecided("kani unit %s: the real crate + harness module did not build / run under Kani: %s" % (unit.name, tail))
        failed = re.findall(r"Verification failed for - (\S+)", out)
        failed = [f.split("::")[-1] for f in failed]
        mm = re.search(r"Complete - (\d+) successfully verified harnesses, (\d+) failures, (\d+) total", out)
        if not mm or int(mm.group(3)) != len(unit.harnesses):
            raise core.Undecided("kani unit %s: expected %d harnesses, Kani ran %s" % (unit.name, len(unit.harnesses), mm.group(3) if mm else "?"))
        # vacuity: every cover property must be satisfied (decisive only when no harness failed:
        # a change that breaks an assertion may legitimately make a covered branch unreachable)
        if not failed:
            for cm in re.finditer(r"\*\* (\d+) of (\d+) cover properties satisfied", out):
                if cm.group(1) != cm.group(2):
                    raise core.Undecided("VACUITY: kani unit %s: %s of %s cover properties satisfied" % (unit.name, cm.group(1), cm.group(2)))
        # every stub must have been applied
        nstub = len(re.findall(r"- Stub: ", out))
        ur.notes.append("stubs applied: %d" % nstub)
        # obligations
        for h in unit.harnesses:
            ids = sorted(set(re.findall(r"\"(kani\.[A-Za-z0-9_.]+)\"", bodies[h])))
            for aid in ids:
                ur.obligations.append(core.Obl("%s@%s" % (aid, h), unit.props_of(aid), unit.name, "kani", h, "assert"))
            ur.obligations.append(core.Obl("kani.%s/real-code-safety" % h, unit.safety_props, unit.name, "kani", h, "auto"))
        # global stub assertions (in k_close, k_socket ...) count once per harness through real-code-safety unless tagged
        for h in failed:
            detail = _rerun_single(unit, d, env, h)
            ur.cmds.append("cargo kani ... --harness %s   # re-run of a failed harness for details" % h)
            fcs = re.findall(r"Failed Checks: (.*?)\n\s*File: \"([^\"]+)\", line (\d+), in (\S+)", detail)
            if not fcs and "at least one was expected" in detail:
                # a #[kani::should_panic] harness: the real code is expected to refuse (panic); it returned normally instead.
                ids = re.findall(r"\"(kani\.[A-Za-z0-9_.]+)\"", bodies[h])
                aid = ids[0] if ids else "kani.%s/expected-panic" % h
                oid = "%s@%s" % (aid, h)
                if not any(o.id == oid for o in ur.obligations):
                    ur.obligations.append(core.Obl(oid, unit.props_of(aid), unit.name, "kani", h, "assert"))
                ur.failures.append(core.Failure(oid, unit.props_of(aid), unit.name, "kani", {"file": unit.append_to, "line": None, "function": h, "harness": h},
                                                "the real code returned normally where it must refuse (expected panic did not occur)", _trim(detail), None, h))
                continue
            if not fcs:
                raise core.Undecided("kani unit %s: harness %s failed without a failed check (timeout / unwinding / unsupported construct): %s"
                                     % (unit.name, h, detail[-600:].replace("\n", " | ")))
            for desc, file, line, fn in fcs:
                if "unwinding assertion" in desc or "unsupported" in desc.lower():
                    raise core.Undecided("kani unit %s: harness %s: %s" % (unit.name, h, desc))
                im = re.search(r"(kani\.[A-Za-z0-9_.]+)", desc)
                line = int(line)
                in_harness_module = file.endswith(unit.append_to) and line > orig_lines
                site = {"file": file, "line": (line if not in_harness_module else None), "function": fn, "harness": h,
                        "harness_file_line": (line - orig_lines if in_harness_module else None)}
                if im:
                    aid = im.group(1)
                    oid = "%s@%s" % (aid, h)
                    if not any(o.id == oid for o in ur.obligations):
                        ur.obligations.append(core.Obl(oid, unit.props_of(aid), unit.name, "kani", h, "assert"))
                    props = unit.props_of(aid)
                else:
                    oid = "kani.%s/real-code-safety" % h
                    props = unit.safety_props
                cex = _counterexample(detail)
                if im:
                    rp = _replay_on_real_code(unit, d, env, im.group(1), cex)
                    if rp is not None:
                        cex = dict(cex or {"kind": "none", "values": []})
                        cex.update(rp)
                ur.failures.append(core.Failure(oid, props, unit.name, "kani", site, desc, _trim(detail), cex, h))
        ur.functions.append({"kani_harnesses": unit.harnesses, "real_crate": "scratch copy of /repo/src (working tree) + appended cfg(kani) module %s (add-only)" % unit.harness_file})
        ur.trusted = ["kani stub model: " + a for a in unit.assumptions]
        ur.trusted += ["Kani/CBMC: machine integers are bit-precise; loops: none in these harnesses beyond the stated #[kani::unwind]",
                       "Kani: termination unverified; std::thread::panicking() stubbed to false"]
        ur.verified_fns = 0
        ur.wall = time.time() - t0
        return ur
    finally:
        try:
            fcntl.flock(lf, fcntl.LOCK_UN)
            lf.close()
        except Exception:
            pass


def _limit_memory():
    # a runaway CBMC (e.g. an unbounded recursion in a harness) must not take the machine down: 24 GB address space
    try:
        resource.setrlimit(resource.RLIMIT_AS, (24 << 30, 24 << 30))
    except Exception:
        pass


def _rerun_single(unit, d, env, h):
    cmd = ["cargo", "kani", "-Z", "stubbing", "-Z", "function-contracts", "-Z", "concrete-playback", "--concrete-playback=print", "--harness", h]
    try:
        p = subprocess.run(cmd, cwd=d, env=env, capture_output=True, text=True, timeout=unit.timeout, preexec_fn=_limit_memory)
        return p.stdout + "\n" + p.stderr
    except subprocess.TimeoutExpired:
        _kill_cbmc()
        return "TIMEOUT"


def _counterexample(detail):
    blocks = re.findall(r"Concrete playback unit test for `[^`]*`:\s*```\s*(.*?)```", detail, re.S)
    blocks = [b for b in blocks if "Check for `assertion`" in b] or [b for b in blocks if "Check for `cover`" not in b]
    if not blocks:
        return None
    b = blocks[0]
    vals = re.findall(r"//\s*(-?\d+(?:\w+)?)\s*\n\s*vec!\[([^\]]*)\]", b)
    return {"kind": "kani concrete playback: values of kani::any() in call order, i.e. the outcomes of the stubbed system calls that drive the REAL function into the failing assertion",
            "values": [v for v, _ in vals], "replayed": False, "unit_test": b[:3000]}


def _replay_on_real_code(unit, d, env, aid, cex):
    """Run the matching scenario of replay/verif_replay.rs against the real, un-stubbed crate (the same scratch copy)."""
    hit = next(((sc, names) for pre, sc, names in unit.replay if aid.startswith(pre)), None)
    if hit is None:
        return None
    sc, names = hit
    vals = (cex or {}).get("values", [])
    args = ",".join("%s=%s" % (n, re.sub(r"[^0-9-]", "", str(v))) for n, v in zip(names, vals))
    tests = os.path.join(d, "tests")
    os.makedirs(tests, exist_ok=True)
    shutil.copy(os.path.join(core.VERIF, "replay", "verif_replay.rs"), os.path.join(tests, "verif_replay.rs"))
    e = dict(env)
    e["CARGO_TARGET_DIR"] = os.path.join(d, "target-replay")
    e["VERIF_REPLAY_SCENARIO"] = sc
    e["VERIF_REPLAY_ARGS"] = args
    e.pop("RUSTFLAGS", None)
    try:
        p = subprocess.run(["cargo", "test", "--offline", "--test", "verif_replay"], cwd=d, env=e, capture_output=True, text=True, timeout=600)
        out = p.stdout + "\n" + p.stderr
    except subprocess.TimeoutExpired:
        return {"replay_scenario": sc, "replay_args": args, "replayed": False, "replay_output": "timeout"}
    finally:
        try:
            os.remove(os.path.join(tests, "verif_replay.rs"))
        except OSError:
            pass
    failed = ("test result: FAILED" in out) or ("SIGABRT" in out) or ("SIGSEGV" in out)
    built = "test result:" in out or failed
    tail = "\n".join([l for l in out.splitlines() if "panicked" in l or "test result" in l or "left:" in l or "right:" in l or "descriptor" in l][:12])
    return {"replay_scenario": sc, "replay_args": args, "replayed": bool(failed),
            "replay_output": tail if built else out[-800:],
            "replay_how": "tests/verif_replay.rs (from /verif/replay) in a scratch copy of the real crate: cargo test --test verif_replay with VERIF_REPLAY_SCENARIO=%s VERIF_REPLAY_ARGS=%s" % (sc, args)}


def _trim(detail):
    keep = [ln for ln in detail.split("\n") if "Status: SUCCESS" not in ln and not ln.startswith("Check ") and "- Description" not in ln or "FAILURE" in ln]
    txt = "\n".join(keep)
    i = txt.find("SUMMARY")
    return (txt[i:] if i >= 0 else txt[-3000:])[:6000]


def _kill_cbmc():
    subprocess.run("pkill -9 -x cbmc; pkill -9 -x kani-driver; true", shell=True)
