"""Check driver: units -> obligations -> verdict, evidence, replay files."""
import copy
import importlib
import json
import os
import re
import shutil
import sys
import tempfile
import time
from concurrent.futures import ThreadPoolExecutor

from . import gen, verus

VERIF = os.path.dirname(os.path.dirname(os.path.abspath(__file__)))
REPO = os.environ.get("VERIF_REPO", "/repo")


class Undecided(Exception):
    """exit 2: extraction lost, construct outside the dialect, vacuity guard, solver limit."""


class Obl:
    def __init__(self, id, props, unit, engine, fn=None, kind="clause"):
        self.id, self.props, self.unit, self.engine, self.fn, self.kind = id, tuple(props), unit, engine, fn, kind


class Failure:
    def __init__(self, obl_id, props, unit, engine, site, message, output, counterexample=None, fn=None):
        self.obl_id, self.props, self.unit, self.engine = obl_id, tuple(props), unit, engine
        self.site, self.message, self.output, self.counterexample, self.fn = site, message, output, counterexample, fn


class UnitRun:
    def __init__(self):
        self.obligations = []   # Obl
        self.failures = []      # Failure
        self.trusted = []
        self.functions = []     # dicts
        self.cmds = []
        self.smt_ms = 0
        self.wall = 0.0
        self.verified_fns = 0
        self.canaries = 0
        self.backend = ""
        self.notes = []
        self.bounded = []


def load_units():
    reg = importlib.import_module("units.registry")
    return reg.VERUS_UNITS, reg.KANI_UNITS


def _fn_ranges(g):
    """generated-file line ranges of each extracted function: list of (start_line0, end_line0, Extracted)."""
    res = []
    lines = g.text.split("\n")
    # locate each function's text in the generated file sequentially
    pos = 0
    for ex in g.functions:
        idx = g.text.find(ex.text, pos)
        if idx < 0:
            continue
        s = g.text.count("\n", 0, idx)
        e = s + ex.text.count("\n")
        res.append((s, e, ex))
        pos = idx + len(ex.text)
    return res


def clause_registry(unit):
    reg = {}

    def add_fn(fn):
        for c in fn.requires + fn.ensures:
            reg[c.id] = (tuple(c.props), fn, "clause")
        for n, lp in fn.loops.items():
            for c in list(lp.invariants) + list(getattr(lp, "except_break", [])) + list(getattr(lp, "ensures", [])):
                reg[c.id] = (tuple(c.props), fn, "clause")
            if lp.decreases:
                reg["%s/loop%d.decreases" % (fn.qual, n)] = (tuple(getattr(lp, "decreases_props", None) or fn.termination_props), fn, "clause")
        if fn.decreases:
            reg["%s/decreases" % fn.qual] = (tuple(fn.termination_props), fn, "clause")
        for sub in fn.nested.values():
            if sub != gen.DROP:
                add_fn(sub)

    for fn in unit.fns():
        add_fn(fn)
    for cid, props in unit.prelude_clauses.items():
        reg[cid] = (tuple(props), None, "call-site")
    return reg


def all_fns(unit):
    def rec(fn):
        yield fn
        for sub in fn.nested.values():
            if sub != gen.DROP:
                for x in rec(sub):
                    yield x
    for fn in unit.fns():
        for x in rec(fn):
            yield x


def run_verus_unit(unit, workdir, tier, seed, want_canaries=True):
    ur = UnitRun()
    ur.backend = "Verus 0.2026.09.13 (Z3 via AIR)"
    t0 = time.time()
    try:
        g = gen.build_unit(REPO, unit, VERIF)
    except gen.GenError as e:
        raise Undecided("unit %s: %s" % (unit.name, e))
    # D8 guard: no Cell::set inside extracted text
    for ex in g.functions:
        if re.search(r"\.set\(", ex.text):
            raise Undecided("unit %s: `.set(` inside extracted function %s (Cell mutation has no spec)" % (unit.name, ex.fn.qual))
        for ln in ex.text.split("\n"):
            code = ln.split("//")[0]
            if "//@@" not in ln and re.search(r"\b(assume|admit)\s*\(", code):
                raise Undecided("unit %s: assume/admit inside extracted body %s" % (unit.name, ex.fn.qual))
    path = os.path.join(workdir, unit.name + ".rs")
    with open(path, "w") as f:
        f.write(g.text)
    reg = clause_registry(unit)
    ranges = _fn_ranges(g)
    gl = g.text.split("\n")

    def fn_at(line0):
        for s, e, ex in ranges:
            if s <= line0 <= e:
                return ex
        return None

    runs = []
    pool = ThreadPoolExecutor(max_workers=2)
    canary_future = None
    if want_canaries and (any(True for _ in unit.fns()) or "//@@CANARY" in (unit.post or "")):
        prepared = prepare_canaries(unit, workdir)
        canary_future = pool.submit(verus.run_verus, prepared[1], None, None, 50, 8)
    rl = 10 if tier == "quick" else 40
    seeds = [None] if tier == "quick" else [None, (seed * 7 + 1) % 100000, (seed * 13 + 5) % 100000]
    for sd in seeds:
        r = verus.run_verus(path, rlimit=rl, seed=sd)
        if tier == "quick" and r.json is not None and any(verus.is_rlimit(d) for d in r.diags):
            # the solver ran out of its budget (typical when an obligation has become false): one retry with 8x the budget
            ur.cmds.append(r.cmd.replace(workdir, "$WORK") + "   # resource limit hit; retried below")
            ur.smt_ms += r.smt_ms or 0
            r = verus.run_verus(path, rlimit=rl * 8, seed=sd, timeout=1500)
        runs.append(r)
        ur.cmds.append(r.cmd.replace(workdir, "$WORK"))
        ur.smt_ms += r.smt_ms or 0
    r0 = runs[0]
    if r0.json is None or r0.verified is None:
        # compile error or crash
        msgs = [d.get("message", "") for d in r0.diags][:5]
        raise Undecided("unit %s: Verus produced no verification result (compile error / construct outside the dialect): %s | %s"
                        % (unit.name, msgs, (r0.raw_stderr or "")[-400:].replace("\n", " ")))
    compile_errs = [d for d in r0.diags if not verus.is_verification_failure(d)]
    if compile_errs:
        raise Undecided("unit %s: non-verification diagnostics: %s" % (unit.name, [d.get("message") for d in compile_errs][:5]))
    # unstable proofs: a seed-variation run that disagrees with the base run -> undecided
    def fail_keys(r):
        return sorted(set(str(_attribute(d, g, reg, fn_at, gl, unit)[0]) for d in r.diags))
    base_keys = fail_keys(r0)
    for r in runs[1:]:
        if r.json is None or fail_keys(r) != base_keys:
            raise Undecided("unit %s: proof unstable under SMT seed variation (%s vs %s)" % (unit.name, base_keys, fail_keys(r) if r.json else "no result"))
    ur.verified_fns = r0.verified
    # obligations
    for cid, (props, fn, kind) in reg.items():
        ur.obligations.append(Obl(cid, props, unit.name, "verus", fn.qual if fn else None, kind))
    for fn in all_fns(unit):
        ur.obligations.append(Obl("%s/body-safety" % fn.qual, fn.safety_props, unit.name, "verus", fn.qual, "auto"))
    # failures
    for d in r0.diags:
        if verus.is_rlimit(d):
            raise Undecided("unit %s: solver resource limit: %s" % (unit.name, d.get("message")))
        oid, props, site, fnq = _attribute(d, g, reg, fn_at, gl, unit)
        if oid is None:
            raise Undecided("unit %s: proof failure inside the trusted prelude (machinery error): %s" % (unit.name, d.get("rendered", "")[:600]))
        ur.failures.append(Failure(oid, props, unit.name, "verus", site, d.get("message"), d.get("rendered", ""), None, fnq))
    # functions under contract
    for ex in g.functions:
        ur.functions.append({"function": ex.fn.qual, "file": ex.repo_span[0], "lines": [ex.repo_span[1], ex.repo_span[2]],
                             "sha256_of_item_text": ex.sha256, "rule_applications": ex.rule_counts,
                             "nested": {k: ("replaced by trusted stub" if v == gen.DROP else "under contract") for k, v in ex.fn.nested.items()}})
    ur.trusted = sorted(set(gen.scan_trusted(g.text)))
    ur.trusted += ["kernel: " + c for c in unit.kernel_clauses]
    ur.generated_text = g.text
    ur.fn_times = r0.fn_times
    # canaries
    if canary_future is not None:
        ur.canaries = finish_canaries(unit, workdir, ur, prepared, canary_future.result())
    pool.shutdown(wait=False)
    ur.wall = time.time() - t0
    return ur


def _attribute(d, g, reg, fn_at, gl, unit):
    """-> (obligation id, props, site dict, fn qual)"""
    spans = d.get("spans", [])
    clause = hint = None
    repo_site = None
    fnq = None
    for sp in spans:
        if os.path.basename(sp.get("file_name", "")) != unit.name + ".rs" or not os.path.isabs(sp.get("file_name", "")):
            continue
        ln0 = sp["line_start"] - 1
        if ln0 >= len(g.origins):
            continue
        org = g.origins[ln0] or {}
        ex = fn_at(ln0)
        if ex is not None and fnq is None:
            fnq = ex.fn.qual
        if org.get("kind") == "clause" and clause is None:
            clause = org["ref"]
        elif org.get("kind") == "hint" and hint is None:
            hint = org["ref"]
        # scan the whole span for tags too (multi-line clause)
        if org.get("kind") in ("repo", "rule", "sig", "drop") and org.get("line") and (repo_site is None or sp.get("is_primary")):
            expr = None
            try:
                t0 = sp["text"][0]
                if sp["line_start"] == sp["line_end"]:
                    expr = t0["text"][t0["highlight_start"] - 1:t0["highlight_end"] - 1]
            except Exception:
                pass
            in_loop = None
            if ex is not None:
                for n, (a, b) in enumerate(getattr(ex, "loop_lines", []) or []):
                    if a <= org["line"] <= b:
                        in_loop = n          # innermost = last one containing the line
            repo_site = {"file": org["file"], "line": org["line"], "text": gl[ln0].strip()[:200], "label": sp.get("label"), "expr": expr, "in_loop": in_loop}
    # ensures failure: spans = clause + exit point
    msg = d.get("message", "")
    if clause and clause in reg:
        return clause, reg[clause][0], repo_site, fnq
    if clause:
        # decreases / untagged clause
        return clause, _fn_props(unit, fnq, term=True), repo_site, fnq
    if hint and hint != "-" and not hint.startswith("canary"):
        props = reg[hint][0] if hint in reg else _fn_props(unit, fnq)
        return hint, props, repo_site or {"hint": True}, fnq
    if hint == "-":
        return "%s/ghost-setup" % (fnq or "?"), _fn_props(unit, fnq), repo_site or {"hint": True}, fnq
    if repo_site is not None and fnq:
        norm = re.sub(r"\s+", " ", repo_site["text"])
        return "%s/body-safety" % fnq, _fn_props(unit, fnq), dict(repo_site, what="%s: %s" % (msg, norm)), fnq
    return None, (), None, fnq


def _fn_props(unit, fnq, term=False):
    for fn in all_fns(unit):
        if fn.qual == fnq:
            return tuple(fn.termination_props if term and fn.termination_props else fn.safety_props)
    return ()


def canary_points(fn):
    pts = ["body:start"]
    for n in sorted(fn.loops):
        pts.append("loop:%d:start" % n)
    return pts


def prepare_canaries(unit, workdir):
    """Vacuity guard: for every function under contract and every reachability
    point (entry, each contracted loop body) a copy with assert(false) there
    must be REJECTED at exactly that line."""
    cunit = copy.copy(unit)
    groups = []
    expect = []
    for header, fns in unit.groups:
        nf = list(fns)
        for fn in fns:
            for i, pt in enumerate(canary_points(fn)):
                c = copy.copy(fn)
                c.rename = "%s_canary%d" % (fn.name, i)
                tag = "canary:%s:%s" % (fn.qual, pt)
                opt = pt.startswith("loop:") and getattr(fn.loops.get(int(pt.split(":")[1])), "optional", False)
                c.hints = list(fn.hints) + [gen.Hint(pt, "assert(false);", tag, optional=opt)]
                nf.append(c)
                expect.append(tag)
        groups.append((header, nf))
    cunit.groups = groups
    # reachability points inside the unit's own lemmas (post text): one module copy per //@@CANARY marker
    markers = [m.start() for m in re.finditer(r"//@@CANARY", unit.post or "")]
    post = ""
    for i, _ in enumerate(markers):
        k = [0]
        def repl(mm, i=i, k=k):
            k[0] += 1
            return ("assert(false); //@@hint:canary:post:%d" % i) if k[0] - 1 == i else ""
        body = re.sub(r"//@@CANARY", repl, unit.post)
        body = re.sub(r"//@@clause:\S+", "", body)
        post += "pub mod post_canary_%d { use super::*;\n%s\n}\n" % (i, body)
        expect.append("canary:post:%d" % i)
    cunit.post = post
    try:
        g = gen.build_unit(REPO, cunit, VERIF)
    except gen.GenError as e:
        raise Undecided("unit %s canaries: %s" % (unit.name, e))
    path = os.path.join(workdir, unit.name + "_canary.rs")
    with open(path, "w") as f:
        f.write(g.text)
    # reachability points of optional loops that the current source does not have produce no canary
    expect = [t for t in expect if ("//@@hint:%s" % t) in g.text]
    return (g, path, expect)


def finish_canaries(unit, workdir, ur, prepared, r):
    g, path, expect = prepared
    if r.json is None:
        raise Undecided("unit %s canaries: no verifier result: %s" % (unit.name, (r.raw_stderr or "")[-300:]))
    bad = [d for d in r.diags if not verus.is_verification_failure(d)]
    if bad or r.verified is None:
        raise Undecided("unit %s canaries: canary file did not compile: %s" % (unit.name, [d.get("message") for d in bad][:3]))
    seen = set()
    for d in r.diags:
        if "assertion failed" not in d.get("message", ""):
            continue
        for sp in d.get("spans", []):
            ln0 = sp["line_start"] - 1
            org = g.origins[ln0] if ln0 < len(g.origins) else None
            if org and org.get("kind") == "hint" and str(org.get("ref", "")).startswith("canary:"):
                seen.add(org["ref"])
    # a canary is decisive only for functions whose real copy verified: after a reported failure
    # Verus assumes the failed condition, which can make later points unreachable
    failed_fns = set(f.fn for f in ur.failures if f.message != "postcondition not satisfied")
    def fn_of(tag):
        return tag.split(":")[1] if tag.count(":") >= 2 else None
    expect = [t for t in expect if not any(fq and (t.split(":", 1)[1].startswith(fq + ":")) for fq in failed_fns)]
    missing = [t for t in expect if t not in seen]
    if missing:
        raise Undecided("VACUITY: unit %s: assert(false) was accepted at %s - contradictory precondition/invariant/assumption" % (unit.name, missing))
    ur.cmds.append(r.cmd.replace(workdir, "$WORK") + "   # canaries: %d assert(false) points, all rejected" % len(expect))
    return len(expect)
