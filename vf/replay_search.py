"""Search for a failing input on the REAL code for a violation a verifier has already reported.

Verus gives no counterexample.  When an obligation fails, the demonstration tests kept under
seeded/*/demo.rs and findings/*_demo.rs (small integration tests against the public API, several
with libc fault injection inside the test binary: ENOBUFS patterns, failing bind/epoll_ctl, fork+kill)
are run against a scratch copy of /repo's working tree.  They never decide anything: a failing test is
attached to the violation as the failing input; if none fails the violation is still reported, with
`no-failing-input-found`."""
import fcntl
import glob
import hashlib
import json
import os
import re
import shutil
import subprocess
import time

CACHE_ROOT = os.environ.get("VERIF_REPLAY_CACHE", "/var/tmp/ipcverif-replay-cache")


def demos_for(verif, props, obligations=()):
    """Demonstration tests for the given properties; those kept with a change that failed one of the same
    obligations come first (the order is only a search heuristic)."""
    out, first = [], []
    keys = [re.sub(r"[^A-Za-z0-9_.-]+", "_", o)[:120] for o in obligations]
    for d in sorted(glob.glob(os.path.join(verif, "seeded", "*-*"))):
        try:
            m = json.load(open(os.path.join(d, "meta.json")))
        except Exception:
            continue
        if m.get("property") in props and os.path.exists(os.path.join(d, "demo.rs")):
            item = (os.path.basename(d).replace("-", "_").lower(), os.path.join(d, "demo.rs"))
            lines = " ".join(l for c in (m.get("check_results") or {}).values() for l in c.get("lines", []))
            (first if any(k and k in lines for k in keys) else out).append(item)
    out = first + out
    for f in sorted(glob.glob(os.path.join(verif, "findings", "*_demo.rs"))):
        tag = os.path.basename(f).split("_")[0][:3].upper()
        if tag in props:
            out.append(("finding_" + os.path.basename(f)[:-3], f))
    return out


def search(repo, verif, props, obligations=(), budget_s=150, max_demos=10):
    demos = demos_for(verif, set(props), obligations)[:max_demos]
    if not demos:
        return None
    lock_path = os.path.join(repo, "Cargo.lock")
    if not os.path.exists(lock_path):      # Cargo.lock is git-ignored in this repository: a fresh worktree has none
        lock_path = "/repo/Cargo.lock"
    lock = open(lock_path, "rb").read()
    d = os.path.join(CACHE_ROOT, hashlib.sha256(lock).hexdigest()[:12])
    os.makedirs(d, exist_ok=True)
    lf = open(os.path.join(d, ".lock"), "w")
    fcntl.flock(lf, fcntl.LOCK_EX)
    t0 = time.time()
    try:
        for sub in ("src", "tests"):
            if os.path.exists(os.path.join(d, sub)):
                shutil.rmtree(os.path.join(d, sub))
        shutil.copytree(os.path.join(repo, "src"), os.path.join(d, "src"))
        toml = open(os.path.join(repo, "Cargo.toml")).read()
        toml = re.sub(r"\[\[bench\]\]\nname = \"[^\"]*\"\nharness = false\n+", "", toml)
        open(os.path.join(d, "Cargo.toml"), "w").write(toml)
        open(os.path.join(d, "Cargo.lock"), "wb").write(lock)
        os.makedirs(os.path.join(d, "tests"))
        for name, path in demos:
            shutil.copy(path, os.path.join(d, "tests", "replay_%s.rs" % name))
        env = dict(os.environ, CARGO_NET_OFFLINE="true", CARGO_TARGET_DIR=os.path.join(d, "target"))
        env.pop("RUSTFLAGS", None)
        p = subprocess.run(["cargo", "test", "--offline", "--tests", "--no-run"], cwd=d, env=env, capture_output=True, text=True, timeout=420)
        built = p.returncode == 0
        tried, failing = [], []
        for name, path in demos:
            if time.time() - t0 > budget_s:
                break
            try:
                q = subprocess.run(["cargo", "test", "--offline", "--test", "replay_%s" % name, "--", "--test-threads", "1"],
                                   cwd=d, env=env, capture_output=True, text=True, timeout=60)
                out = q.stdout + "\n" + q.stderr
                failed = ("test result: FAILED" in out) or ("SIGABRT" in out) or ("SIGSEGV" in out)
                compiled = "test result:" in out or failed
            except subprocess.TimeoutExpired as e:
                out = "timeout after 60 s (the test hangs on this code)\n" + ((e.stdout or b"").decode() if isinstance(e.stdout, bytes) else (e.stdout or ""))[-400:]
                failed, compiled = True, True
                subprocess.run("pkill -9 -f 'replay_%s-' ; true" % name, shell=True)
            tried.append(name)
            if failed and compiled:
                tail = "\n".join([l for l in out.splitlines() if ("panicked" in l or "test result" in l or "left:" in l or "right:" in l
                                                                      or "timeout" in l or l.startswith("test "))][:14])
                failing.append({"demo": os.path.relpath(path, verif), "output": tail[:1500]})
                break                       # one failing input is what the report needs
        return {"tried": tried, "failing": failing, "built": built, "wall_s": round(time.time() - t0, 1),
                "how": "scratch copy of /repo's working tree + the listed demo as tests/replay_<name>.rs; cargo test --offline --test replay_<name>"}
    finally:
        try:
            fcntl.flock(lf, fcntl.LOCK_UN)
            lf.close()
        except Exception:
            pass
