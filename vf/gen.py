"""Generate one Verus file per unit from /repo's current working tree.

The text of every function under contract is copied from the repository and
changed only by *edits* that are computed against the original text and
recorded (kind, id, original span):

  rule     a dialect (D*) / boundary (B*) / elision (E*) rewrite, regex driven
  sig      extra ghost parameters, a name for the return value
  clause   a requires / ensures / invariant / decreases clause  (an obligation)
  hint     ghost code and proof hints, each naming the clause it supports
  drop     a nested fn item that is replaced by a trusted stub in the prelude

Everything else in the generated function is byte-for-byte the repository's.
An origin map (generated line -> repo file:line | clause id | hint | prelude)
lets verifier diagnostics be attributed to obligations.
"""
import hashlib
import os
import re

from . import rustsrc as rs


class GenError(Exception):
    """Extraction failed: lost anchor, overlapping edits, construct outside the
    dialect.  The check exits 2 (undecided), never reports a violation."""


class Clause:
    def __init__(self, id, text, props=()):
        self.id, self.text, self.props = id, text.strip().rstrip(","), tuple(props)


class Hint:
    """Ghost text inserted at an anchor.  anchor forms:
       'body:start'           just after the function's opening brace
       'body:end'             just before the function's closing brace
       'loop:N:before'        before loop N (source order, 0-based)
       'loop:N:start'/'end'   first / last thing in loop N's body
       'loop:N:after'         right after loop N's closing brace
       'before:REGEX'/'after:REGEX'  before / after the (occurrence-th) match of REGEX
    """
    def __init__(self, anchor, text, supports=None, occurrence=0, all=False, optional=False):
        self.anchor, self.text, self.supports, self.occurrence, self.all = anchor, text, supports, occurrence, all
        self.optional = optional


class Rule:
    def __init__(self, id, regex, repl, note="", flags=re.S, min_count=0):
        self.id, self.regex, self.repl, self.note, self.min_count = id, re.compile(regex, flags), repl, note, min_count


class TlsWith(Rule):
    """D4: `STATIC.with(|x| BODY)` -> `(BODY)`, and inside BODY `*x.borrow_mut()` / `x.borrow_mut()` -> `tls.FIELD`,
    `let mut x = x.borrow_mut();` -> `let x = &mut tls.FIELD;`, `let x = x.borrow();` -> `let x = &tls.FIELD;`.  thread_local!/RefCell elimination: the
    thread-local lists become fields of an explicit `tls: &mut Tls` parameter.  RefCell's dynamic borrow
    check (a panic on re-entrant borrow) is not modelled."""
    def __init__(self, static, field, min_count=1):
        Rule.__init__(self, "D4", re.escape(static), "", "thread-local %s -> tls.%s" % (static, field), min_count=min_count)
        self.static, self.field = static, field

    def custom(self, src, m, item, in_skip):
        out = []
        for x in re.finditer(r"\b%s\s*\.\s*with\s*\(" % re.escape(self.static), m[item.body_open:item.body_close]):
            st = item.body_open + x.start()
            po = item.body_open + x.end() - 1
            if in_skip(st):
                continue
            pc = rs.match_close(m, po)
            pm = re.compile(r"\s*\|\s*([A-Za-z_][A-Za-z0-9_]*)\s*\|").match(m, po + 1)
            if not pm:
                raise GenError("construct outside the dialect: %s.with(..) without a |param| closure" % self.static)
            param = pm.group(1)
            out.append(Edit(st, pm.end(), "(/* D4: %s -> tls.%s */" % (self.static, self.field), "rule", "D4"))
            # trailing comma before the closing paren
            tm = re.compile(r",\s*$").search(m, pm.end(), pc)
            if tm:
                out.append(Edit(tm.start(), tm.start() + 1, "", "rule", "D4"))
            body_s, body_e = pm.end(), pc
            if re.search(r"\breturn\b|\?", m[body_s:body_e]):
                # the closure body becomes a block of the host function: a `return` / `?` in it keeps its meaning only if the
                # `.with(..)` call is the tail expression of the host function (then leaving the closure IS leaving the function)
                before = m[item.body_open:st].rstrip()
                after = re.sub(r"[\s)},]", "", m[pc + 1:item.body_close])
                if after != "" or not before.endswith(("{", "|", ";", "}")):
                    raise GenError("construct outside the dialect: `return` or `?` inside a %s.with(..) closure that is not the tail of the function" % self.static)
            pats = [
                (r"let\s+mut\s+%s\s*=\s*%s\s*\.\s*borrow_mut\(\)\s*;" % (param, param), "let %s = &mut tls.%s;" % (param, self.field)),
                (r"let\s+%s\s*=\s*%s\s*\.\s*borrow\(\)\s*;" % (param, param), "let %s = &tls.%s;" % (param, self.field)),
                (r"\*\s*%s\s*\.\s*borrow_mut\(\)" % param, "tls.%s" % self.field),
                (r"\b%s\s*\.\s*borrow_mut\(\)" % param, "tls.%s" % self.field),
                (r"\b%s\s*\.\s*borrow\(\)" % param, "tls.%s" % self.field),
            ]
            taken = []
            for rx, rep in pats:
                for y in re.compile(rx).finditer(m, body_s, body_e):
                    if any(a < y.end() and y.start() < b for a, b in taken):
                        continue
                    taken.append((y.start(), y.end()))
                    out.append(Edit(y.start(), y.end(), rep, "rule", "D4"))
        return out


class MutSelf(Rule):
    """D13: `fn f(mut self, ..) { .. self.x .. }` -> `fn f(self, ..) { let mut this = self; .. this.x .. }`
    (this Verus rejects `mut self` parameters; the rewrite is the definition of a `mut` by-value binding)."""
    def __init__(self):
        Rule.__init__(self, "D13", r"mut self", "", "mut self parameter", min_count=1)

    def custom(self, src, m, item, in_skip):
        out = []
        pm = re.compile(r"\bmut\s+self\b").search(m, item.params_open, item.params_close)
        if not pm:
            return out
        out.append(Edit(pm.start(), pm.end(), "self", "rule", "D13"))
        out.append(Edit(item.body_open + 1, item.body_open + 1, "\n        let mut this = self; /* D13 */", "rule", "D13"))
        for y in re.compile(r"\bself\b").finditer(m, item.body_open, item.body_close):
            if not in_skip(y.start()):
                out.append(Edit(y.start(), y.end(), "this", "rule", "D13"))
        return out


class TailMethodToCall(Rule):
    """D6f: a function body that is one expression `EXPR.method(arg)` -> `func(EXPR, arg)`
    (used for `if .. {..} else {..}.serialize(serializer)`: serde's generic trait method becomes a stub call)."""
    def __init__(self, id, method_call_regex, func, arg, note=""):
        Rule.__init__(self, id, method_call_regex, "", note, min_count=1)
        self.func, self.arg = func, arg

    def custom(self, src, m, item, in_skip):
        ms = list(self.regex.finditer(m, item.body_open, item.body_close))
        if not ms:
            return []
        x = ms[-1]
        if m[x.end():item.body_close].strip() != "":
            raise GenError("construct outside the dialect: %s is not the tail of the body" % self.regex.pattern)
        st = item.body_open + 1
        while src[st].isspace():
            st += 1
        return [Edit(st, st, "%s(" % self.func, "rule", self.id), Edit(x.start(), x.end(), ", %s)" % self.arg, "rule", self.id)]


class AppendArg(Rule):
    """B*: append a (ghost) argument to every call matching `call_regex` (which must end at the opening paren)."""
    def __init__(self, id, call_regex, arg, note="", min_count=0, rename=None):
        Rule.__init__(self, id, call_regex, "", note, min_count=min_count)
        self.arg, self.rename = arg, rename

    def custom(self, src, m, item, in_skip):
        out = []
        for x in self.regex.finditer(m, item.body_open, item.body_close):
            if in_skip(x.start()) or m[x.end() - 1] != "(":
                continue
            po = x.end() - 1
            pc = rs.match_close(m, po)
            inner = m[po + 1:pc]
            if inner.strip() == "":
                out.append(Edit(pc, pc, self.arg, "rule", self.id))
            elif inner.rstrip().endswith(","):
                out.append(Edit(pc, pc, " " + self.arg, "rule", self.id))
            else:
                out.append(Edit(pc, pc, ", " + self.arg, "rule", self.id))
            if self.rename:
                out.append(Edit(x.start(), x.end(), self.rename + "(", "rule", self.id))
        return out


class GuardedDestructure(Rule):
    """D16: `Err(UnixError::Errno(x)) if COND =>` -> `Err(e__) if (match &e__ { UnixError::Errno(x) => { let x = *x; COND }, _ => false }) =>`.
    Same meaning (the arm body must not use x).  Needed because this Verus loses every fact about `&mut` parameters on the exits of
    LATER arms when an earlier arm destructures a non-Copy scrutinee by value under a guard."""
    def __init__(self):
        Rule.__init__(self, "D16", r"Err\(UnixError::Errno\((\w+)\)\) if ", "", "destructuring guard -> guard over a borrowed match")

    def custom(self, src, m, item, in_skip):
        out = []
        for x in self.regex.finditer(m, item.body_open, item.body_close):
            if in_skip(x.start()):
                continue
            arrow = rs.depth0_find(m, x.end(), item.body_close, lambda mm_, i: mm_.startswith("=>", i))
            if arrow < 0:
                continue
            var = x.group(1)
            cond = src[x.end():arrow].strip()
            out.append(Edit(x.start(), arrow, "Err(e__) if (match &e__ { UnixError::Errno(%s) => { let %s = *%s; %s }, _ => false }) " % (var, var, var, cond), "rule", "D16"))
        return out


class MapCollect(Rule):
    """`V.into_iter().map(|x| BODY).collect()` -> `stub(V)`: the adapter chain becomes a stub that states the element-wise,
    order-preserving map with a spec function; BODY itself is verified separately against that spec (ClosureFn)."""
    def __init__(self, id, param, stub, note="", min_count=1):
        Rule.__init__(self, id, r"(\w+)\s*\.into_iter\(\)\s*\.map\(\s*\|%s\|" % re.escape(param), "", note, min_count=min_count)
        self.stub = stub

    def custom(self, src, m, item, in_skip):
        out = []
        for x in self.regex.finditer(m, item.body_open, item.body_close):
            if in_skip(x.start()):
                continue
            po = x.start() + x.group(0).rindex("(")
            pc = rs.match_close(m, po)
            tail = re.compile(r"\s*\.collect\(\)").match(m, pc + 1)
            if not tail:
                continue
            out.append(Edit(x.start(), tail.end(), "%s(%s)" % (self.stub, x.group(1)), "rule", self.id))
        return out


class CtorClosure(Rule):
    """D33: a closure argument `(|x| Ctor(..x..))` whose body is nothing but datatype constructors applied to the parameter
    gets its own result as postcondition: `(|x| -> (r__: T) ensures r__ == BODY { BODY })`, T read off the outermost constructor.
    (This Verus knows nothing about an un-annotated closure's result; for a constructor application the annotation is the body itself.)"""
    def __init__(self):
        Rule.__init__(self, "D33", r"\(\s*\|(\w+)\|\s*(?=[A-Z])", "", "constructor closure annotated with its own body")

    def custom(self, src, m, item, in_skip):
        out = []
        for x in self.regex.finditer(m, item.body_open, item.body_close):
            if in_skip(x.start()):
                continue
            pc = rs.match_close(m, x.start())
            body = src[x.end():pc].strip()
            if not re.match(r"^[\w:\s(),]+$", body) or body.endswith(","):
                continue
            if any(not c.split("::")[-1][0].isupper() for c in re.findall(r"([\w:]+)\s*\(", body)):
                continue      # a function call, not a constructor
            head = re.match(r"[\w:]+", body).group(0)
            segs = head.split("::")
            ty = {"Ok": "Result<_, _>", "Err": "Result<_, _>", "Some": "Option<_>"}.get(segs[-1]) if len(segs) == 1 else "::".join(segs[:-1])
            if ty is None:
                ty = head
            out.append(Edit(x.end(), pc, "-> (r__: %s) ensures r__ == %s { %s }" % (ty, body, body), "rule", "D33"))
        return out


class QuestionFrom(Rule):
    """D34: `CALL(..)?` -> `(match CALL(..) { Ok(v__) => v__, Err(e__) => return Err(From::from(e__)) })` for calls matching
    `call_regex` (which must end at the opening paren).  This is the definition of `?`; it is spelled out where a postcondition
    speaks about the converted error, because this Verus forgets the `From` impl's postcondition at a `?`."""
    def __init__(self, id, call_regex, note="`?` written out so that the From conversion's contract is visible"):
        Rule.__init__(self, id, call_regex, "", note)

    def custom(self, src, m, item, in_skip):
        out = []
        for x in self.regex.finditer(m, item.body_open, item.body_close):
            if in_skip(x.start()) or m[x.end() - 1] != "(":
                continue
            pc = rs.match_close(m, x.end() - 1)
            q = pc + 1
            while m[q].isspace():
                q += 1
            if m[q] != "?":
                continue
            out.append(Edit(x.start(), x.start(), "(match ", "rule", self.id))
            out.append(Edit(q, q + 1, " { Ok(v__) => v__, Err(e__) => return Err(From::from(e__)) })", "rule", self.id))
        return out


class Loop:
    def __init__(self, invariants=(), decreases=None, iter_name=None, desugar_range_for=False, attrs=None, continue_hint=None,
                 except_break=(), ensures=(), optional=False, desugar_while_let=False):
        self.desugar_while_let = desugar_while_let
        self.invariants, self.decreases, self.iter_name = list(invariants), decreases, iter_name
        self.desugar_range_for, self.attrs = desugar_range_for, attrs
        self.continue_hint = continue_hint
        self.except_break, self.ensures, self.optional = list(except_break), list(ensures), optional


DROP = "drop"


class Fn:
    def __init__(self, file, path, extra_params=None, ret=None, requires=(), ensures=(), decreases=None,
                 loops=None, hints=(), rules=(), nested=None, safety_props=(), attrs=None, rename=None,
                 ret_type=None, no_unwind=False, termination_props=()):
        self.file, self.path = file, list(path)
        self.extra_params, self.ret = extra_params, ret
        self.requires, self.ensures, self.decreases = list(requires), list(ensures), decreases
        self.loops, self.hints, self.rules = dict(loops or {}), list(hints), list(rules)
        self.nested = dict(nested or {})
        self.safety_props, self.attrs, self.rename = tuple(safety_props), attrs, rename
        self.ret_type, self.no_unwind = ret_type, no_unwind
        self.termination_props = tuple(termination_props)

    @property
    def name(self):
        return self.path[-1]

    @property
    def qual(self):
        segs = []
        for s in self.path:
            if re.match(r"impl\b", s) and not re.match(r"[A-Za-z_][A-Za-z0-9_]*$", s):
                h = re.sub(r"\bwhere\b.*$", "", s).strip()
                h = h.split(" for ")[-1] if " for " in h else re.sub(r"^impl(<[^>]*>)?\s*", "", h)
                segs.append(re.sub(r"<.*$", "", h).strip())
            else:
                segs.append(s)
        return "::".join(segs)


class ClosureFn(Fn):
    """A closure literal `Box::new(move |PARAMS| BODY)` inside `host` (a fn item path), verified as a function:
    the BODY text is copied verbatim (then regex rules), the signature (captured variables by reference + the
    closure parameters with their types) is supplied by the unit.  `which` selects the n-th such closure."""
    def __init__(self, file, host, name, sig, which=0, opener=r"Box::new\(\s*move\s*\|([^|]*)\|", value=False, **kw):
        Fn.__init__(self, file, list(host) + [name], **kw)
        self.value = value        # the closure's body is its result (no trailing `;`)
        self.host, self.cname, self.sig, self.which = list(host), name, sig, which
        self.opener = opener      # regex: up to and including the closure's parameter list; its first `(` is the call the closure is an argument of
        self.closure = True

    @property
    def qual(self):
        segs = Fn(self.file, self.host).qual
        return segs + "::{closure:" + self.cname + "}"


class BlockFn(Fn):
    """A block `{ .. }` that is not a fn item (the body of a `thread::spawn(move || { .. })` closure, the body of a
    trait method whose signature is outside the dialect), verified as the body of a function: the text between the
    braces is copied verbatim and goes through the same edits as a fn body (contracts, loop invariants, hints,
    rules); the signature is supplied by the unit.  `anchor` is a regex over the masked file text that must END at
    the opening brace; `which` selects the n-th match."""
    def __init__(self, file, anchor, name, sig, which=0, scope=None, **kw):
        Fn.__init__(self, file, list(scope or []) + [name], **kw)
        self.anchor, self.bname, self.sig, self.which = anchor, name, sig, which
        self.block = True

    @property
    def qual(self):
        return "::".join(Fn(self.file, self.path[:-1]).qual.split("::") + ["{block:" + self.bname + "}"]) if len(self.path) > 1 else "{block:" + self.bname + "}"


class _BlockItem:
    def __init__(self, src, name, body_open, body_close):
        self.src, self.name = src, name
        self.attr_start = self.fn_kw = self.sig_start = self.params_open = self.params_close = body_open
        self.body_open, self.body_close = body_open, body_close

    @property
    def line(self):
        return self.src.count("\n", 0, self.body_open) + 1

    @property
    def end_line(self):
        return self.src.count("\n", 0, self.body_close) + 1


class Edit:
    def __init__(self, start, end, text, kind, ref=None):
        self.start, self.end, self.text, self.kind, self.ref = start, end, text, kind, ref


def _clauses_text(kw, clauses, indent):
    if not clauses:
        return ""
    out = ["%s%s" % (indent, kw)]
    for c in clauses:
        lines = c.text.split("\n")
        # the clause is emitted on consecutive lines, every one tagged
        for i, ln in enumerate(lines):
            tail = "," if i == len(lines) - 1 else ""
            out.append("%s    %s%s //@@clause:%s" % (indent, ln.rstrip(), tail, c.id))
    return "\n".join(out) + "\n"


def _hint_text(h, indent):
    tag = " //@@hint:%s" % (h.supports or "-")
    return "".join("%s%s%s\n" % (indent, ln.rstrip(), tag) for ln in h.text.strip("\n").split("\n"))


class Extracted:
    def __init__(self):
        self.text = ""
        self.origins = []          # per output line (0-based): dict
        self.rule_counts = {}
        self.sha256 = None
        self.repo_span = None
        self.clauses = []


_NOT_CALLS = set("if while for loop match return let fn unsafe Some None Ok Err Box Vec assert debug_assert panic vec format write drop".split())


def _split_args(text):
    out, depth, cur = [], 0, ""
    for ch in text:
        if ch in "([{<" and not (ch == "<"):
            depth += 1
        elif ch in ")]}":
            depth -= 1
        if ch == "," and depth == 0:
            out.append(cur.strip()); cur = ""
        else:
            cur += ch
    if cur.strip():
        out.append(cur.strip())
    return out


def _inline_helpers(spec, src, m, item, known):
    """D36: a call, in the function under contract, of a small helper function of the same file that no contract, stub or rule knows
    is replaced by the helper's body (`{ let param = arg; ..; BODY }`) - the definition of a call - provided the helper is
    straight-line: no loop, no `return`, no `?`, no generics, no nested item.  Typical origin: a maintainer moved two
    duplicated lines into a private function.  Returns (src, n_inlined)."""
    n_inl = 0
    for _round in range(3):
        body_lo, body_hi = item.body_open + 1, item.body_close
        nested = [(n.attr_start, n.body_close) for n in rs.nested_fns(src, m, item.body_open, item.body_close)]
        cands = []
        for x in re.finditer(r"(?<![\w.:!])((?:self\s*\.\s*|Self::)?)([a-z_][a-z0-9_]*)\s*\(", m[body_lo:body_hi]):
            name = x.group(2)
            if name in _NOT_CALLS or name in known or m[body_lo + x.start() - 1:body_lo + x.start()] == ".":
                continue
            if any(a <= body_lo + x.start() <= b for a, b in nested):
                continue          # nested fn items have their own contract or stub
            call = src[body_lo + x.start():body_lo + x.end()]
            if any(getattr(r, "regex", None) is not None and r.regex.search(call) for r in spec.rules):
                continue
            cands.append((body_lo + x.start(), body_lo + x.end() - 1, x.group(1).strip(), name))
        done = False
        for cs, po, recv, name in reversed(cands):
            helper = None
            try:
                if recv:
                    if len(spec.path) >= 2:
                        helper = rs.find_fn(src, list(spec.path[:-1]) + [name], m)
                else:
                    helper = rs.find_fn(src, [name], m)
            except rs.ScanError:
                helper = None
            if helper is None or helper.body_open == item.body_open:
                continue
            hb = m[helper.body_open + 1:helper.body_close]
            sig = m[helper.fn_kw:helper.body_open]
            if re.search(r"\b(for|while|loop|return|fn|async)\b", hb) or "?" in hb or "<" in m[helper.fn_kw:helper.params_open]:
                continue
            params = _split_args(src[helper.params_open + 1:helper.params_close])
            pc = rs.match_close(m, po)
            args = _split_args(src[po + 1:pc])
            lets = []
            has_self = bool(params) and re.match(r"&?\s*(mut\s+)?self$", params[0].replace(" ", "") .replace("&mut", "&mut ")) is not None or (bool(params) and params[0].strip() in ("self", "&self", "&mut self"))
            if has_self:
                if recv != "self.":
                    continue
                params = params[1:]
            elif recv == "self.":
                continue
            if len(params) != len(args):
                continue
            ok = True
            for prm, arg in zip(params, args):
                pm_ = re.match(r"(mut\s+)?([a-z_][a-z0-9_]*)\s*:\s*(.+)$", prm, re.S)
                if not pm_:
                    ok = False
                    break
                lets.append("let %s%s: %s = %s;" % (pm_.group(1) or "", pm_.group(2), pm_.group(3).strip(), arg))
            if not ok:
                continue
            # the lets are sequential: an argument that mentions an earlier parameter's name would read the parameter,
            # not the caller's variable of that name - unless that parameter was bound to exactly that variable
            names = [re.match(r"(mut\s+)?([a-z_][a-z0-9_]*)", prm).group(2) for prm in params]
            if any(re.search(r"\b%s\b" % re.escape(names[i]), rs.mask(args[j])) and args[i].strip() != names[i]
                   for j in range(len(args)) for i in range(j)):
                continue
            block = "{ /* D36: body of `%s` inlined */ %s %s }" % (name, " ".join(lets), src[helper.body_open + 1:helper.body_close].strip())
            src = src[:cs] + block + src[pc + 1:]
            m = rs.mask(src)
            item = rs.find_fn(src, spec.path, m)
            n_inl += 1
            done = True
            break
        if not done:
            break
    return src, m, item, n_inl


def build_fn(repo, spec, src_cache, base_indent="    "):
    """Return Extracted for spec (an Fn)."""
    path = os.path.join(repo, spec.file)
    if path not in src_cache:
        with open(path, encoding="utf-8") as f:
            s = f.read()
        src_cache[path] = (s, rs.mask(s))
    src, m = src_cache[path]
    if getattr(spec, "closure", False):
        return _build_closure(spec, src, m)
    prefix = ""
    if getattr(spec, "block", False):
        found = [x for x in re.compile(spec.anchor, re.S).finditer(m) if m[x.end() - 1] == "{"]
        if spec.which >= len(found):
            raise GenError("anchor lost: block %s (%s) in %s" % (spec.bname, spec.anchor, spec.file))
        bo = found[spec.which].end() - 1
        item = _BlockItem(src, spec.bname, bo, rs.match_close(m, bo))
        sig = re.sub(r"fn\s+[A-Za-z_0-9]+", "fn " + spec.rename, spec.sig, 1) if spec.rename else spec.sig
        prefix = ((spec.attrs + "\n    ") if spec.attrs else "") + sig
    else:
        try:
            item = rs.find_fn(src, spec.path, m)
        except rs.ScanError as e:
            raise GenError("anchor lost: %s" % e)
    n_inlined = 0
    if not prefix and getattr(spec, "_known", None) is not None:
        src, m, item, n_inlined = _inline_helpers(spec, src, m, item, spec._known)
    edits = []
    rule_counts = {}
    if n_inlined:
        rule_counts["D36"] = n_inlined
    clauses = []
    _fn_edits(spec, item, src, m, edits, rule_counts, clauses, top=True)
    if prefix:
        edits = [e for e in edits if not (e.kind == "sig" and e.ref == "attrs")]
    # apply
    edits.sort(key=lambda e: (e.start, e.end))
    for a, b in zip(edits, edits[1:]):
        if b.start < a.end:
            raise GenError("overlapping edits in %s: %r/%r and %r/%r at %d" % (spec.qual, a.kind, a.ref, b.kind, b.ref, b.start))
    out = []           # (text, origin)
    pos = item.sig_start
    end = item.body_close + 1
    for e in edits:
        if e.start > pos:
            out.append((src[pos:e.start], ("repo", pos)))
        if e.text:
            out.append((e.text, (e.kind, e.ref, e.start)))
        pos = max(pos, e.end)
    if pos < end:
        out.append((src[pos:end], ("repo", pos)))
    ex = Extracted()
    ex.rule_counts = rule_counts
    ex.clauses = clauses
    ex.sha256 = hashlib.sha256(src[item.sig_start:end].encode()).hexdigest()
    ex.repo_span = (spec.file, item.line, item.end_line)
    # build text + per-line origin
    text = "".join(t for t, _ in out)
    # origin per output line: origin of first non-blank char on the line
    line_origin = []
    cur_line_origin = None
    for t, org in out:
        off = 0
        for ch in t:
            if ch == "\n":
                line_origin.append(cur_line_origin)
                cur_line_origin = None
            elif cur_line_origin is None and not ch.isspace():
                if org[0] == "repo":
                    o = org[1] + off
                    cur_line_origin = {"kind": "repo", "file": spec.file, "line": src.count("\n", 0, o) + 1}
                else:
                    cur_line_origin = {"kind": org[0], "ref": org[1], "file": spec.file,
                                       "line": src.count("\n", 0, org[2]) + 1}
            off += 1
    line_origin.append(cur_line_origin)
    # refine clause/hint origins from trailing tags
    lines = text.split("\n")
    for i, ln in enumerate(lines):
        mm = re.search(r"//@@(clause|hint):(\S+)\s*$", ln)
        if mm:
            base = line_origin[i] or {}
            line_origin[i] = {"kind": mm.group(1), "ref": mm.group(2), "file": spec.file, "line": base.get("line")}
    if prefix:
        text = prefix + text
        line_origin = [{"kind": "sig", "ref": "block-signature", "file": spec.file, "line": item.line}] * prefix.count("\n") + line_origin
    ex.text = text
    ex.origins = line_origin
    ex.fn = spec
    # repo line ranges of the function's loops (source order), so that a diagnostic can be placed "inside loop N"
    try:
        nested = [(n.attr_start, n.body_close) for n in rs.nested_fns(src, m, item.body_open, item.body_close)]
        ex.loop_lines = [(src.count("\n", 0, o) + 1, src.count("\n", 0, bc) + 1) for o, kw, bo, bc in rs.loops_in(m, item.body_open + 1, item.body_close, nested)]
    except Exception:
        ex.loop_lines = []
    return ex


def _build_closure(spec, src, m):
    try:
        host = rs.find_fn(src, spec.host, m)
    except rs.ScanError as e:
        raise GenError("anchor lost: %s" % e)
    found = [x for x in re.finditer(spec.opener, m[host.body_open:host.body_close])]
    if spec.which >= len(found):
        raise GenError("anchor lost: closure %d in %s" % (spec.which, Fn(spec.file, spec.host).qual))
    x = found[spec.which]
    po = host.body_open + x.start() + x.group(0).index("(")
    pc = rs.match_close(m, po)
    bs, be = host.body_open + x.end(), pc
    body = src[bs:be].strip().rstrip(",").strip()
    counts = {}
    for r in spec.rules:
        if isinstance(r, AppendArg):
            n = 0
            pos = 0
            while True:
                bm = rs.mask(body)
                x = r.regex.search(bm, pos)
                if not x:
                    break
                po = x.end() - 1
                pc = rs.match_close(bm, po)
                inner = bm[po + 1:pc].strip()
                ins = r.arg if inner == "" else ((" " if inner.endswith(",") else ", ") + r.arg)
                body = body[:pc] + ins + body[pc:]
                pos = pc + len(ins)
                n += 1
        else:
            body, n = r.regex.subn(r.repl, body)
        counts[r.id] = counts.get(r.id, 0) + n
        if n < r.min_count:
            raise GenError("anchor lost: rule %s in closure of %s" % (r.id, Fn(spec.file, spec.host).qual))
    ctext = _clauses_text("requires", spec.requires, "        ") + _clauses_text("ensures", spec.ensures, "        ")
    sig = spec.sig
    if spec.rename:
        sig = re.sub(r"fn\s+[A-Za-z_0-9]+", "fn " + spec.rename, sig, 1)
    pre = ""
    for h in spec.hints:
        if h.anchor == "body:start":
            pre += _hint_text(h, "        ")
    text = "%s\n%s    {\n%s        %s%s\n    }" % (sig, ctext, pre, body, "" if spec.value else ";")
    line = src.count("\n", 0, bs) + 1
    ex = Extracted()
    ex.rule_counts, ex.clauses = counts, list(spec.requires) + list(spec.ensures)
    ex.sha256 = hashlib.sha256(src[bs:be].encode()).hexdigest()
    ex.repo_span = (spec.file, line, src.count("\n", 0, be) + 1)
    ex.text = text
    ex.origins = []
    for ln in text.split("\n"):
        mm = re.search(r"//@@(clause|hint):(\S+)\s*$", ln)
        if mm:
            ex.origins.append({"kind": mm.group(1), "ref": mm.group(2), "file": spec.file, "line": line})
        else:
            ex.origins.append({"kind": "repo", "file": spec.file, "line": line})
    ex.fn = spec
    return ex


def _enclosing_open(m, pos, lo):
    """offset of the `{` that encloses `pos` (scanning the masked text backwards), or -1."""
    depth = 0
    i = pos - 1
    while i >= lo:
        c = m[i]
        if c == "}":
            depth += 1
        elif c == "{":
            if depth == 0:
                return i
            depth -= 1
        i -= 1
    return -1


def _is_tail(m, cstart, cend, body_open, body_close):
    """True if control leaving the construct m[cstart:cend] normally reaches the end of the loop body
    (body_open..body_close) without executing anything else: every enclosing construct up to the loop body
    is a block with nothing after the child, a match arm, or an if/else branch."""
    for _ in range(64):
        pre = m[body_open:cstart].rstrip()
        if pre.endswith("=>"):                       # the construct is the value of a match arm
            eo = _enclosing_open(m, cstart, body_open + 1)
            if eo < 0:
                return False
            mk = re.compile(r"\bmatch\b[^{};]*$", re.S).search(m, body_open, eo)
            if not mk:
                return False
            cstart, cend = mk.start(), rs.match_close(m, eo) + 1
            continue
        q = cend
        while q < body_close and m[q].isspace():
            q += 1
        if q < body_close and m[q] in ";,":
            q += 1
            while q < body_close and m[q].isspace():
                q += 1
        if q >= body_close:
            return True
        if m[q] != "}":
            return False
        ob = _enclosing_open(m, q, body_open + 1)
        if ob < 0:
            return False
        # header of the block that closes at q
        hs = ob
        while hs > body_open + 1 and m[hs - 1] not in ";{}" and not m[:hs].rstrip().endswith("=>"):
            hs -= 1
            if m[hs] == ",":
                hs += 1
                break
        head = m[hs:ob].strip()
        if re.match(r"(?:'\w+\s*:\s*)?(for|while|loop)\b", head):
            return False
        cstart = hs + (len(m[hs:ob]) - len(m[hs:ob].lstrip()))
        cend = q + 1
        while True:                                   # an if-chain: skip the remaining else branches
            em = re.compile(r"\s*else\b").match(m, cend)
            if not em:
                break
            nb = rs.depth0_find(m, em.end(), body_close, lambda mm_, x: mm_[x] == "{")
            if nb < 0:
                return False
            cend = rs.match_close(m, nb) + 1
    return False


def _for_continue_edits(src, m, bo, bc, inner):
    """D23: this Verus rejects `continue` in a `for` loop.  A `continue` in tail position of the loop body
    (nothing else would run before the next iteration) is rewritten:
      `let PAT = EXPR else { continue; }; REST }`  ->  `match EXPR { PAT => { REST } _ => {} } }`
      `continue;` / `=> continue,`                 ->  `{}`
    Anything else is left for the verifier to reject (exit 2)."""
    out = []
    for cm in re.finditer(r"\bcontinue\b\s*;?", m[bo:bc]):
        co, ce = bo + cm.start(), bo + cm.end()
        if any(a < co < b for _, _, a, b in inner):
            continue
        eo = _enclosing_open(m, co, bo + 1)
        le = re.compile(r"\blet\s+(.+?)\s*=\s*(.+?)\s*\belse\s*$", re.S)
        handled = False
        if eo > bo and m[eo + 1:rs.match_close(m, eo)].strip() in ("continue;", "continue"):
            # else-block of a let-else?
            ss = eo
            while ss > bo + 1 and m[ss - 1] not in ";{}":
                ss -= 1
            lm = le.match(m[ss:eo].strip()) if m[ss:eo].strip().startswith("let") else None
            if lm:
                stmt_start = ss + (len(m[ss:eo]) - len(m[ss:eo].lstrip()))
                ec = rs.match_close(m, eo)
                semi = ec + 1
                while m[semi].isspace():
                    semi += 1
                blk_open = _enclosing_open(m, stmt_start, bo)
                if m[semi] == ";" and blk_open >= bo:
                    blk_close = rs.match_close(m, blk_open)
                    if _is_tail(m, stmt_start, blk_close, bo, bc):
                        lm2 = le.match(m, stmt_start, eo)
                        pat = src[lm2.start(1):lm2.end(1)]
                        out.append(Edit(stmt_start, lm2.start(2), "match ", "rule", "D23"))
                        out.append(Edit(lm2.end(2), semi + 1, " { %s => { /* D23: let-else-continue in tail position */" % pat, "rule", "D23"))
                        out.append(Edit(blk_close, blk_close, "} _ => {} } ", "rule", "D23"))
                        handled = True
        if not handled and _is_tail(m, co, ce, bo, bc):
            out.append(Edit(co, ce, "{ /* D23: continue */ }", "rule", "D23"))
            handled = True
        if not handled and eo > bo and m[eo + 1:rs.match_close(m, eo)].strip() in ("continue;", "continue"):
            # `if COND { continue; } REST }`  ->  `if COND { } else { REST } }` when the `if` statement's block is in tail position
            ss = eo
            while ss > bo + 1 and m[ss - 1] not in ";{}":
                ss -= 1
            head = m[ss:eo].strip()
            ec = rs.match_close(m, eo)
            nxt = re.compile(r"\s*else\b").match(m, ec + 1)
            if head.startswith("if ") and not nxt:
                stmt_start = ss + (len(m[ss:eo]) - len(m[ss:eo].lstrip()))
                blk_open = _enclosing_open(m, stmt_start, bo)
                if blk_open >= bo:
                    blk_close = rs.match_close(m, blk_open)
                    if _is_tail(m, stmt_start, blk_close, bo, bc):
                        out.append(Edit(co, ce, "/* D23: continue */", "rule", "D23"))
                        out.append(Edit(ec + 1, ec + 1, " else { /* D23: the rest of the iteration */", "rule", "D23"))
                        out.append(Edit(blk_close, blk_close, "} ", "rule", "D23"))
    return out


def _indent_at(src, off):
    ls = src.rfind("\n", 0, off) + 1
    mm = re.match(r"[ \t]*", src[ls:off + 200])
    return mm.group(0)


def _fn_edits(spec, item, src, m, edits, rule_counts, clauses, top):
    ind = _indent_at(src, item.sig_start)
    # --- nested fn items
    skip = []
    nested_items = {n.name: n for n in rs.nested_fns(src, m, item.body_open, item.body_close)}
    for name, sub in spec.nested.items():
        if name not in nested_items:
            raise GenError("anchor lost: nested fn %s in %s" % (name, spec.qual))
        n = nested_items[name]
        skip.append((n.attr_start, n.body_close))
        if sub == DROP:
            edits.append(Edit(n.attr_start, n.body_close + 1, "/* nested fn %s: replaced by the trusted stub in the prelude */" % name, "drop", name))
        else:
            # doc comments/attrs of nested fn are kept as they are (comments)
            _fn_edits(sub, n, src, m, edits, rule_counts, clauses, top=False)
    for name, n in nested_items.items():
        if name not in spec.nested:
            raise GenError("construct outside the dialect: nested fn %s in %s has no contract or stub" % (name, spec.qual))

    def in_skip(o):
        return any(a <= o <= b for a, b in skip)

    # --- signature
    if spec.rename and not getattr(spec, "block", False):
        nm = re.compile(r"fn\s+(%s)\b" % re.escape(item.name)).match(m, item.fn_kw)
        edits.append(Edit(nm.start(1), nm.end(1), spec.rename, "sig", "rename"))
    if spec.extra_params:
        inner = m[item.params_open + 1:item.params_close].strip()
        sep = "" if (not inner or inner.endswith(",")) else ", "
        edits.append(Edit(item.params_close, item.params_close, sep + spec.extra_params, "sig", "ghost-params"))
    arrow = m.find("->", item.params_close, item.body_open)
    # where clause?
    where = re.compile(r"\bwhere\b").search(m, item.params_close, item.body_open)
    ret_end = where.start() if where else item.body_open
    if spec.ret:
        if arrow < 0:
            raise GenError("%s: no return type to name" % spec.qual)
        ts = arrow + 2
        ty = src[ts:ret_end]
        lead = len(ty) - len(ty.lstrip())
        trail = len(ty) - len(ty.rstrip())
        edits.append(Edit(ts + lead, ts + lead, "(%s: " % spec.ret, "sig", "ret-name"))
        edits.append(Edit(ret_end - trail, ret_end - trail, ")", "sig", "ret-name"))
    ctext = ""
    ctext += _clauses_text("requires", spec.requires, ind + "    ")
    ctext += _clauses_text("ensures", spec.ensures, ind + "    ")
    if spec.decreases:
        ctext += "%s    decreases %s //@@clause:%s/decreases\n" % (ind, spec.decreases, spec.qual)
    if spec.no_unwind:
        ctext += "%s    no_unwind\n" % ind
    clauses.extend(spec.requires)
    clauses.extend(spec.ensures)
    if ctext:
        # before the body's '{' ; keep `where` clauses before the contract
        edits.append(Edit(item.body_open, item.body_open, "\n" + ctext + ind, "clause", spec.qual))
    if spec.attrs:
        edits.append(Edit(item.sig_start, item.sig_start, spec.attrs + "\n" + ind, "sig", "attrs"))

    # --- loops
    loops = rs.loops_in(m, item.body_open + 1, item.body_close, skip)
    for n, lp in spec.loops.items():
        if n >= len(loops) and lp.optional:
            continue
        if n >= len(loops):
            raise GenError("anchor lost: loop %d of %s (function has %d loops)" % (n, spec.qual, len(loops)))
        o, kw, bo, bc = loops[n]
        lind = _indent_at(src, o)
        inv = ""
        if lp.except_break:
            inv += _clauses_text("invariant_except_break", lp.except_break, lind + "    ")
            clauses.extend(lp.except_break)
        if lp.invariants:
            inv += _clauses_text("invariant", lp.invariants, lind + "    ")
            clauses.extend(lp.invariants)
        if lp.ensures:
            inv += _clauses_text("ensures", lp.ensures, lind + "    ")
            clauses.extend(lp.ensures)
        if lp.decreases:
            inv += "%s    decreases %s //@@clause:%s/loop%d.decreases\n" % (lind, lp.decreases, spec.qual, n)
        if lp.desugar_range_for:
            if kw != "for":
                raise GenError("loop %d of %s is not a for loop" % (n, spec.qual))
            hm = re.compile(r"for\s+([A-Za-z_][A-Za-z0-9_]*)\s+in\s+(.+?)\.\.(.+?)\s*$", re.S).match(src[o:bo])
            if not hm:
                raise GenError("construct outside the dialect: loop %d of %s is not `for x in a..b`" % (n, spec.qual))
            var, lo, hi = hm.group(1), hm.group(2).strip(), hm.group(3).strip()
            edits.append(Edit(o, bo, "let mut %s = %s; while %s < %s\n%s%s" % (var, lo, var, hi, inv, lind), "rule", "D9"))
            rule_counts["D9"] = rule_counts.get("D9", 0) + 1
            inner = rs.loops_in(m, bo + 1, bc)
            for cm in re.finditer(r"\bcontinue\s*;", m[bo:bc]):
                co = bo + cm.start()
                if any(a < co < b for _, _, a, b in inner):
                    continue
                ch = ""
                if lp.continue_hint:
                    cind = _indent_at(src, co)
                    ch = "\n" + _hint_text(lp.continue_hint, cind + "    ") + cind + "    "
                edits.append(Edit(co, bo + cm.end(), "{%s %s += 1; continue; }" % (ch, var), "rule", "D9"))
            edits.append(Edit(bc, bc, "    %s += 1;\n%s" % (var, lind), "rule", "D9"))
        elif lp.desugar_while_let and re.compile(r"while\s+(?=let\b)").match(m, o):
            # D27: `while let PAT = EXPR { BODY }` -> `loop { let PAT = EXPR else { break; }; BODY }` (the definition of while-let);
            # lets ghost code name the state before EXPR is evaluated (hint anchor loop:N:head)
            wm = re.compile(r"while\s+(?=let\b)").match(m, o)
            edits.append(Edit(o, wm.end(), "loop\n%s%s{ /* D27 */\n%s    " % (inv, lind, lind), "rule", "D27"))
            edits.append(Edit(bo, bo + 1, "else { break; };", "rule", "D27"))
            rule_counts["D27"] = rule_counts.get("D27", 0) + 1
        else:
            if lp.iter_name:
                if kw != "for":
                    raise GenError("loop %d of %s is not a for loop" % (n, spec.qual))
                im = re.compile(r"\bin\s+").search(m, o, bo)
                edits.append(Edit(im.end(), im.end(), "%s: " % lp.iter_name, "rule", "D7"))
                rule_counts["D7"] = rule_counts.get("D7", 0) + 1
            if inv:
                edits.append(Edit(bo, bo, "\n" + inv + lind, "clause", "%s/loop%d" % (spec.qual, n)))
        if lp.attrs:
            edits.append(Edit(o, o, lp.attrs + "\n" + lind, "sig", "loop-attrs"))

    for (o, kw, bo, bc) in loops:
        if kw == "for" and not (spec.loops.get(loops.index((o, kw, bo, bc))) and spec.loops[loops.index((o, kw, bo, bc))].desugar_range_for):
            d23 = _for_continue_edits(src, m, bo, bc, rs.loops_in(m, bo + 1, bc))
            if d23:
                edits.extend(d23)
                rule_counts["D23"] = rule_counts.get("D23", 0) + len(d23)

    # --- hints
    def ins_line_before(off, body_of):
        """insert whole lines before the line containing `off` (if only blanks precede it there)."""
        ls = src.rfind("\n", 0, off) + 1
        if src[ls:off].strip() == "":
            return (ls, body_of(_indent_at(src, off)))
        return (off, "\n" + body_of(_indent_at(src, off)) + _indent_at(src, off))

    def ins_after(off, body_of, hind):
        le = src.find("\n", off)
        rest = src[off:le if le >= 0 else len(src)]
        if rest.strip() == "":
            return (off, "\n" + body_of(hind).rstrip("\n"))
        return (off, "\n" + body_of(hind) + hind)

    for h in spec.hints:
        a = h.anchor
        body_of = lambda hind, h=h: _hint_text(h, hind)
        places = []
        if a == "body:start":
            places = [ins_after(item.body_open + 1, body_of, ind + "    ")]
        elif a == "body:end":
            places = [ins_line_before(item.body_close, lambda hind: body_of(hind + "    "))]
        elif a.startswith("loop:"):
            _, n, where_ = a.split(":")
            n = int(n)
            if n >= len(loops) and h.optional:
                continue
            if n >= len(loops):
                raise GenError("anchor lost: %s in %s" % (a, spec.qual))
            o, kw, bo, bc = loops[n]
            lind = _indent_at(src, o)
            if where_ == "head":
                wm = re.compile(r"while\s+(?=let\b)").match(m, o)
                if wm and n in spec.loops and spec.loops[n].desugar_while_let:
                    places = [(wm.end(), body_of(lind + "    ").lstrip() + lind + "    ")]
                else:       # not (or no longer) a while-let: the head of the body is its start
                    places = [ins_after(bo + 1, body_of, lind + "    ")]
            elif where_ == "before":
                places = [ins_line_before(o, body_of)]
            elif where_ == "start":
                places = [ins_after(bo + 1, body_of, lind + "    ")]
            elif where_ == "end":
                places = [ins_line_before(bc, lambda hind: body_of(hind + "    "))]
            elif where_ == "after":
                places = [ins_after(bc + 1, body_of, lind)]
            else:
                raise GenError("bad anchor %s" % a)
        elif a.startswith("before:") or a.startswith("after:"):
            where_, rx = a.split(":", 1)
            ms = [x for x in re.compile(rx, re.S).finditer(src, item.body_open, item.body_close) if not in_skip(x.start())]
            ms = [x for x in ms if m[x.start()] == src[x.start()] or src[x.start()].isspace()]
            if (not ms or (not h.all and h.occurrence >= len(ms))) and h.optional:
                continue
            if not ms or (not h.all and h.occurrence >= len(ms)):
                raise GenError("anchor lost: %s (occurrence %d) in %s" % (a, h.occurrence, spec.qual))
            sel = ms if h.all else [ms[h.occurrence]]
            for x in sel:
                if where_ == "before":
                    places.append(ins_line_before(x.start(), body_of))
                else:
                    places.append(ins_after(x.end(), body_of, _indent_at(src, x.start())))
        else:
            raise GenError("bad anchor %s" % a)
        for off, txt in places:
            edits.append(Edit(off, off, txt, "hint", h.supports))

    # --- rules (regex on original text of this fn, outside nested items)
    rule_edits = []
    for r in list(spec.rules) + FALLBACK_RULES:
        cnt = 0
        if getattr(r, "custom", None):
            ces = r.custom(src, m, item, in_skip)
            for e in ces:
                e.rule = r
            rule_edits.extend(ces)
            rule_counts[r.id] = rule_counts.get(r.id, 0) + len(ces)
            if len(ces) < r.min_count:
                raise GenError("anchor lost: rule %s produced %d edit(s) in %s, needs >= %d" % (r.id, len(ces), spec.qual, r.min_count))
            continue
        for x in r.regex.finditer(src, item.sig_start, item.body_close + 1):
            if in_skip(x.start()):
                continue
            if m[x.start()] != src[x.start()] and not src[x.start()].isspace():
                continue  # inside comment / string
            e = Edit(x.start(), x.end(), x.expand(r.repl), "rule", r.id)
            e.rule = r
            rule_edits.append(e)
            cnt += 1
        rule_counts[r.id] = rule_counts.get(r.id, 0) + cnt
        if cnt < r.min_count:
            raise GenError("anchor lost: rule %s matched %d time(s) in %s, needs >= %d" % (r.id, cnt, spec.qual, r.min_count))
    # a rule match lying inside another rule's match is applied to that rule's replacement text instead
    keep = []
    for e in rule_edits:
        outer = next((o for o in rule_edits if o is not e and o.start <= e.start and e.end <= o.end and (o.end - o.start) > (e.end - e.start)), None)
        if outer is not None:
            outer.text = e.rule.regex.sub(e.rule.repl, outer.text)
        else:
            keep.append(e)
    edits.extend(keep)


# applied to every extracted function after the unit's own rules
FALLBACK_RULES = [Rule("D49", r"\|_\|\s*(((?:[a-z_][a-z0-9_]*::)*[A-Z]\w*)::[A-Z]\w*)\s*(?=[,)])",
                       r"|_ign__| -> (r__: \2) ensures r__ == \1 { \1 }",
                       "`|_| Enum::Variant` (a closure returning one constant variant): parameter named and the closure annotated with its own body; "
                       "this Verus accepts only variables as closure parameters and treats an un-annotated closure as opaque")]


class Unit:
    def __init__(self, name, prelude, groups, props, trusted=(), kernel_clauses=(), post="", prelude_clauses=None):
        """groups: list of (wrapper_header | None, [Fn...]).  wrapper_header e.g. 'impl OsIpcSender'."""
        self.name, self.prelude, self.groups, self.props = name, prelude, groups, tuple(props)
        self.trusted, self.kernel_clauses, self.post = list(trusted), list(kernel_clauses), post
        self.prelude = [prelude] if isinstance(prelude, str) else list(prelude)
        self.prelude_clauses = dict(prelude_clauses or {})

    def fns(self):
        for _, fl in self.groups:
            for f in fl:
                yield f


class Generated:
    pass


def build_unit(repo, unit, verif_dir):
    g = Generated()
    src_cache = {}
    parts = []         # (text, origins list)
    for pf in unit.prelude:
        with open(os.path.join(verif_dir, pf), encoding="utf-8") as f:
            ptxt = f.read()
        if not ptxt.endswith("\n"):
            ptxt += "\n"
        plines = ptxt.split("\n")[:-1]
        porg = []
        for i, ln in enumerate(plines):
            mm = re.search(r"//@@(clause|hint):(\S+)\s*$", ln)
            if mm:
                porg.append({"kind": mm.group(1), "ref": mm.group(2), "file": pf, "line": i + 1, "prelude": True})
            else:
                porg.append({"kind": "prelude", "file": pf, "line": i + 1})
        parts.append((ptxt, porg))
    g.functions = []
    prelude_all = "".join(t for t, _ in parts)
    known = set(re.findall(r"\bfn\s+([A-Za-z_][A-Za-z0-9_]*)", prelude_all)) | set(re.findall(r"\bfn\s+([A-Za-z_][A-Za-z0-9_]*)", unit.post or ""))
    for _h, _fns in unit.groups:
        for _f in _fns:
            known.add(_f.name)
            if _f.rename:
                known.add(_f.rename)
            for _r in _f.rules:
                rn = getattr(_r, "rename", None)
                if rn:
                    known.add(rn)
    for header, fns in unit.groups:
        for fn in fns:
            fn._known = known
        if header:
            parts.append((header + " {\n", [{"kind": "wrapper"}]))
        for fn in fns:
            ex = build_fn(repo, fn, src_cache)
            t = "    " + ex.text + "\n\n"
            o = list(ex.origins) + [None]
            parts.append((t, o))
            g.functions.append(ex)
        if header:
            parts.append(("}\n\n", [{"kind": "wrapper"}, None]))
    # module-level `const NAME: T = EXPR;` items of the source files that the extracted text mentions and the
    # prelude does not define are copied verbatim (a change may introduce a new constant next to the function)
    prelude_text = "".join(t for t, _ in parts[:len(unit.prelude)])
    body_text = "".join(ex.text for ex in g.functions)
    added = []
    for path, (src, m) in src_cache.items():
        for cm in re.finditer(r"^(?:pub(?:\([a-z]+\))? )?const ([A-Z][A-Z0-9_]*): ([^=;]+?) = ([^;]+);", m, re.M):
            name = cm.group(1)
            if name in added or not re.search(r"\b%s\b" % name, body_text):
                continue
            if re.search(r"\b(const|static|fn)\s+%s\b" % name, prelude_text):
                continue
            added.append(name)
            txt = "pub const %s: %s = %s; // copied verbatim from %s\n" % (name, src[cm.start(2):cm.end(2)].strip(), src[cm.start(3):cm.end(3)].strip(), os.path.relpath(path, repo))
            parts.append((txt, [{"kind": "repo", "file": os.path.relpath(path, repo), "line": src.count("\n", 0, cm.start()) + 1}]))
    g.copied_consts = added
    if unit.post:
        pl = unit.post if unit.post.endswith("\n") else unit.post + "\n"
        porg = []
        for i, ln in enumerate(pl.split("\n")[:-1]):
            mm = re.search(r"//@@(clause|hint):(\S+)\s*$", ln)
            if mm:
                porg.append({"kind": mm.group(1), "ref": mm.group(2), "file": unit.name + ":post", "line": i + 1, "prelude": True})
            else:
                porg.append({"kind": "prelude", "file": unit.name + ":post", "line": i + 1})
        parts.append((pl, porg))
    parts.append(("} // verus!\nfn main() {}\n", [{"kind": "wrapper"}, {"kind": "wrapper"}]))
    text = ""
    origins = []
    for t, o in parts:
        nl = t.count("\n")
        o = (o + [None] * nl)[:nl]
        text += t
        origins.extend(o)
    g.text, g.origins = text, origins
    return g


def scan_trusted(text):
    """Mechanical scan of a generated file for every construct that is an
    assumption rather than a proof."""
    res = []
    lines = text.split("\n")
    for i, ln in enumerate(lines):
        code = ln.split("//")[0]
        if "#[verifier::external_body]" in code or "#[verifier::external_type_specification]" in code:
            kind = "external_body" if "external_body" in code else "external_type_specification"
            for j in range(i, min(i + 6, len(lines))):
                mm = re.search(r"\b(fn|struct|enum)\s+([A-Za-z_0-9]+)", lines[j].split("//")[0])
                if mm:
                    res.append("%s: %s %s" % (kind, mm.group(1), mm.group(2)))
                    break
            continue
        if "assume_specification" in code:
            mm = re.search(r"\[\s*(.+?)\s*\]\s*\(", code) or re.search(r"\[([^\]]+)\]", code)
            res.append("assume_specification: %s" % (mm.group(1).strip() if mm else code.strip()[:60]))
            continue
        mm = re.search(r"uninterp\s+spec\s+fn\s+([A-Za-z_0-9]+)", code)
        if mm:
            res.append("uninterpreted spec fn: %s" % mm.group(1))
        mm = re.search(r"global\s+size_of\s+(\w+)\s*==\s*(\d+)", code)
        if mm:
            res.append("layout assumption: size_of %s == %s" % (mm.group(1), mm.group(2)))
        for kw in ("assume(", "admit(", "exec_allows_no_decreases_clause"):
            if kw in code:
                res.append("%s at generated line %d: %s" % (kw.rstrip("("), i + 1, code.strip()[:80]))
    return res
