// ---------------------------------------------------------------------------
// U11 prelude: src/asynch.rs (feature `async`).  The routing thread's closure body,
// IpcReceiver::to_stream and IpcStream::poll_next are verified against stand-ins for
// the receiver set (unit U5 / property C06), futures' unbounded mpsc channels and the
// wake-up IpcSender, all over one ghost world A.
// ---------------------------------------------------------------------------
use std::collections::HashMap;

pub struct OpaqueIpcMessage { pub ghost mid: int }           // message identity
pub struct OpaqueIpcReceiver { pub ghost rid: int }          // receiver (channel) identity
pub struct IpcReceiver<T> { pub ghost rid: int, pub phantom: PhantomData<T> }
pub type Decoded<T> = Result<T, BincodeError>;
pub mod bincode { pub type Error = super::BincodeError; }
pub uninterp spec fn decoded_of<T>(d: Decoded<T>) -> int;     // the message a decode result was obtained from
pub enum IpcSelectionResult { MessageReceived(u64, OpaqueIpcMessage), ChannelClosed(u64) }
pub struct IpcReceiverSet { pub _p: () }
#[derive(Debug)] pub struct IoError { pub _p: () }
#[derive(Debug)] pub struct TrySendError { pub _p: () }
#[derive(Debug)] pub struct TryRecvError { pub _p: () }
#[derive(Debug)] pub struct PoisonError { pub _p: () }
#[derive(Debug)] pub struct BincodeError { pub _p: () }
pub struct UnboundedSender<T> { pub ghost chan: int, pub phantom: PhantomData<T> }     // futures::channel::mpsc
pub struct UnboundedReceiver<T> { pub ghost chan: int, pub phantom: PhantomData<T> }
pub struct WakeSender { pub _p: () }                         // IpcSender<()> of the wake-up channel
pub struct WakeMutex { pub inner: WakeSender }               // Mutex<IpcSender<()>>
pub struct Context { pub ghost task: int }                   // futures::task::Context: the task to wake
pub enum Poll<T> { Ready(T), Pending }
pub type Route = (OpaqueIpcReceiver, UnboundedSender<OpaqueIpcMessage>);

pub struct Router {
    pub add_route: UnboundedSender<Route>,
    pub wakeup: WakeMutex,
}
pub struct IpcStream<T>(pub UnboundedReceiver<OpaqueIpcMessage>, pub PhantomData<T>);

pub enum Ev { Route(int, int), Wake }                        // what to_stream did, in order
pub enum Yield { Pending, End, Msg(int) }                    // what one poll of a forwarding channel produced

pub struct A {
    pub wakeup: u64,                      // id of the wake-up channel in the set
    pub live: Set<u64>,                   // ids currently in the receiver set
    pub issued: Set<u64>,                 // ids ever returned by add (never reused: C06)
    pub delivered: Seq<(u64, int)>,       // every MessageReceived(id, m) the set reported, in order
    pub forwarded: Seq<(int, int)>,       // every unbounded_send on a stream's channel: (stream, message), in order
    pub stream_of: Map<u64, int>,         // set id -> the stream that was queued together with that receiver
    pub pending: Seq<(int, int)>,         // routes (receiver, stream) queued by to_stream and not yet taken by the thread
    pub taken: Map<int, int>,             // receiver -> stream, for every route the thread has taken off the queue
    pub ev: Seq<Ev>,                      // to_stream's actions
    pub fresh: int,                       // next unused stream identity
    pub polls: Seq<(int, int, Yield)>,    // (stream, task whose waker was registered, outcome) per poll of a forwarding channel
}

pub open spec fn ev_id(e: IpcSelectionResult) -> u64 {
    match e { IpcSelectionResult::MessageReceived(id, _) => id, IpcSelectionResult::ChannelClosed(id) => id }
}
pub open spec fn msgs(r: Seq<IpcSelectionResult>) -> Seq<(u64, int)> decreases r.len() {
    if r.len() == 0 { Seq::empty() } else {
        match r.last() {
            IpcSelectionResult::MessageReceived(id, m) => msgs(r.drop_last()).push((id, m.mid)),
            IpcSelectionResult::ChannelClosed(_) => msgs(r.drop_last()),
        }
    }
}
// what must have been forwarded for a history of deliveries: every message that is not a wake-up,
// to the stream registered with its channel, once, in order
pub open spec fn fwd(d: Seq<(u64, int)>, stream_of: Map<u64, int>, wakeup: u64) -> Seq<(int, int)> decreases d.len() {
    if d.len() == 0 { Seq::empty() }
    else if d.last().0 != wakeup { fwd(d.drop_last(), stream_of, wakeup).push((stream_of[d.last().0], d.last().1)) }
    else { fwd(d.drop_last(), stream_of, wakeup) }
}
pub open spec fn batch_ok(r: Seq<IpcSelectionResult>, live: Set<u64>) -> bool {
    &&& forall|j: int| 0 <= j < r.len() ==> live.contains(ev_id(#[trigger] r[j]))
    &&& forall|j: int, l: int| 0 <= j < l < r.len() && (#[trigger] r[j]) is ChannelClosed ==> ev_id(#[trigger] r[l]) != ev_id(r[j])
}
pub open spec fn is_closed_in(r: Seq<IpcSelectionResult>, id: u64) -> bool {
    exists|j: int| 0 <= j < r.len() && (#[trigger] r[j]) is ChannelClosed && ev_id(r[j]) == id
}
pub open spec fn same_but_set(a0: A, a1: A) -> bool {   // fields the receiver set does not touch
    a1.forwarded == a0.forwarded && a1.pending == a0.pending && a1.taken == a0.taken && a1.ev == a0.ev && a1.fresh == a0.fresh && a1.polls == a0.polls
}

impl IpcReceiverSet {
    #[verifier::external_body]
    // Assumption: creating the epoll instance succeeds (the code expect()s it)
    pub fn new(Tracked(a): Tracked<&mut A>) -> (r: Result<IpcReceiverSet, IoError>)
        ensures *final(a) == *old(a), r is Ok
    { unimplemented!() }

    // add of the wake-up receiver.  Assumption: registering it with epoll succeeds (the code ignores the result).
    #[verifier::external_body]
    pub fn add(&mut self, receiver: IpcReceiver<()>, Tracked(a): Tracked<&mut A>) -> (r: Result<u64, IoError>)
        ensures
            r matches Ok(id) && !old(a).issued.contains(id) && final(a).wakeup == id
                && final(a).live == old(a).live.insert(id) && final(a).issued == old(a).issued.insert(id),
            final(a).delivered == old(a).delivered, final(a).stream_of == old(a).stream_of, same_but_set(*old(a), *final(a)),
    { unimplemented!() }

    #[verifier::external_body]
    pub fn select(&mut self, Tracked(a): Tracked<&mut A>) -> (r: Result<Vec<IpcSelectionResult>, IoError>)
        ensures
            final(a).wakeup == old(a).wakeup, final(a).issued == old(a).issued, final(a).stream_of == old(a).stream_of,
            same_but_set(*old(a), *final(a)),
            r matches Ok(results) ==> {
                &&& batch_ok(results@, old(a).live)
                &&& forall|id: u64| #[trigger] final(a).live.contains(id) <==> old(a).live.contains(id) && !is_closed_in(results@, id)
                &&& final(a).delivered == old(a).delivered + msgs(results@)
            },
            r is Err ==> *final(a) == *old(a),
    { unimplemented!() }

    // may fail (epoll_ctl); on success the id is fresh and the set remembers which receiver it stands for
    #[verifier::external_body]
    pub fn add_opaque(&mut self, receiver: OpaqueIpcReceiver, Tracked(a): Tracked<&mut A>) -> (r: Result<u64, IoError>)
        requires
            old(a).taken.contains_key(receiver.rid), //@@clause:asynch.add_opaque/requires.route_was_taken_from_the_queue
        ensures
            final(a).wakeup == old(a).wakeup, final(a).delivered == old(a).delivered, same_but_set(*old(a), *final(a)),
            r matches Ok(id) ==> !old(a).issued.contains(id) && final(a).live == old(a).live.insert(id) && final(a).issued == old(a).issued.insert(id)
                && final(a).stream_of == old(a).stream_of.insert(id, old(a).taken[receiver.rid]),
            r is Err ==> final(a).live == old(a).live && final(a).issued == old(a).issued && final(a).stream_of == old(a).stream_of,
    { unimplemented!() }
}

impl UnboundedSender<OpaqueIpcMessage> {
    // futures UnboundedSender::unbounded_send on a stream's channel: FIFO, never blocks; fails only when the stream was dropped
    #[verifier::external_body]
    pub fn unbounded_send(&self, msg: OpaqueIpcMessage, Tracked(a): Tracked<&mut A>) -> (r: Result<(), TrySendError>)
        ensures
            final(a).forwarded == old(a).forwarded.push((self.chan, msg.mid)),
            final(a).wakeup == old(a).wakeup, final(a).live == old(a).live, final(a).issued == old(a).issued, final(a).delivered == old(a).delivered,
            final(a).stream_of == old(a).stream_of, final(a).pending == old(a).pending, final(a).taken == old(a).taken, final(a).ev == old(a).ev,
            final(a).fresh == old(a).fresh, final(a).polls == old(a).polls,
    { unimplemented!() }
}
impl UnboundedSender<Route> {
    // to_stream's hand-over of (receiver, stream sender) to the routing thread
    #[verifier::external_body]
    pub fn unbounded_send(&self, route: Route, Tracked(a): Tracked<&mut A>) -> (r: Result<(), TrySendError>)
        ensures
            r is Ok,   // the routing thread owns the receiving end for the life of the process
            final(a).pending == old(a).pending.push((route.0.rid, route.1.chan)), final(a).ev == old(a).ev.push(Ev::Route(route.0.rid, route.1.chan)),
            final(a).wakeup == old(a).wakeup, final(a).live == old(a).live, final(a).issued == old(a).issued, final(a).delivered == old(a).delivered,
            final(a).stream_of == old(a).stream_of, final(a).forwarded == old(a).forwarded, final(a).taken == old(a).taken,
            final(a).fresh == old(a).fresh, final(a).polls == old(a).polls,
    { unimplemented!() }
}
impl UnboundedReceiver<Route> {
    #[verifier::external_body]
    pub fn is_terminated(&self, Tracked(a): Tracked<&mut A>) -> (r: bool)
        ensures *final(a) == *old(a), r ==> old(a).pending.len() == 0   // terminated = closed AND drained
    { unimplemented!() }
    // Ok(Some(route)) while something is queued; Err(_) = empty for now; Ok(None) = closed and drained
    #[verifier::external_body]
    pub fn try_next(&mut self, Tracked(a): Tracked<&mut A>) -> (r: Result<Option<Route>, TryRecvError>)
        ensures
            final(a).wakeup == old(a).wakeup, final(a).live == old(a).live, final(a).issued == old(a).issued, final(a).delivered == old(a).delivered,
            final(a).stream_of == old(a).stream_of, final(a).forwarded == old(a).forwarded, final(a).ev == old(a).ev,
            final(a).fresh == old(a).fresh, final(a).polls == old(a).polls,
            old(a).pending.len() > 0 ==> (r matches Ok(Some(route)) && (route.0.rid, route.1.chan) == old(a).pending[0]
                && final(a).pending == old(a).pending.subrange(1, old(a).pending.len() as int)
                && final(a).taken == old(a).taken.insert(route.0.rid, route.1.chan)),
            old(a).pending.len() == 0 ==> !(r matches Ok(Some(_))) && final(a).pending == old(a).pending && final(a).taken == old(a).taken,
    { unimplemented!() }
}
impl UnboundedReceiver<OpaqueIpcMessage> {
    // Stream::poll_next of the forwarding channel: registers ctx's waker when it answers Pending
    #[verifier::external_body]
    pub fn poll_next(&mut self, ctx: &mut Context, Tracked(a): Tracked<&mut A>) -> (r: Poll<Option<OpaqueIpcMessage>>)
        ensures
            final(self).chan == old(self).chan,
            final(a).polls == old(a).polls.push((old(self).chan, old(ctx).task, inner_view(r))),
            final(a).wakeup == old(a).wakeup, final(a).live == old(a).live, final(a).issued == old(a).issued, final(a).delivered == old(a).delivered,
            final(a).stream_of == old(a).stream_of, final(a).forwarded == old(a).forwarded, final(a).pending == old(a).pending,
            final(a).taken == old(a).taken, final(a).ev == old(a).ev, final(a).fresh == old(a).fresh,
    { unimplemented!() }
    #[verifier::external_body]
    pub fn is_terminated(&self) -> (r: bool) { unimplemented!() }
}
pub open spec fn inner_view(p: Poll<Option<OpaqueIpcMessage>>) -> Yield {
    match p { Poll::Pending => Yield::Pending, Poll::Ready(None) => Yield::End, Poll::Ready(Some(m)) => Yield::Msg(m.mid) }
}
pub open spec fn stream_view<T>(p: Poll<Option<Decoded<T>>>) -> Yield {
    match p { Poll::Pending => Yield::Pending, Poll::Ready(None) => Yield::End, Poll::Ready(Some(d)) => Yield::Msg(decoded_of(d)) }
}
impl OpaqueIpcMessage {
    // OpaqueIpcMessage::to (unit U7): decode this message
    #[verifier::external_body]
    pub fn to<T>(self) -> (r: Decoded<T>) ensures decoded_of(r) == self.mid { unimplemented!() }
}
impl<T> IpcReceiver<T> {
    // IpcReceiver::to_opaque (unit U7): same OS receiver
    #[verifier::external_body]
    pub fn to_opaque(self) -> (r: OpaqueIpcReceiver) ensures r.rid == self.rid { unimplemented!() }
}
// futures::channel::mpsc::unbounded(): a new channel
#[verifier::external_body]
pub fn mpsc_unbounded(Tracked(a): Tracked<&mut A>) -> (r: (UnboundedSender<OpaqueIpcMessage>, UnboundedReceiver<OpaqueIpcMessage>))
    ensures
        r.0.chan == old(a).fresh && r.1.chan == old(a).fresh && final(a).fresh == old(a).fresh + 1,
        final(a).wakeup == old(a).wakeup, final(a).live == old(a).live, final(a).issued == old(a).issued, final(a).delivered == old(a).delivered,
        final(a).stream_of == old(a).stream_of, final(a).forwarded == old(a).forwarded, final(a).pending == old(a).pending,
        final(a).taken == old(a).taken, final(a).ev == old(a).ev, final(a).polls == old(a).polls,
{ unimplemented!() }
impl WakeMutex {
    // Mutex::lock.  Assumption: not poisoned (the only code run under it is one send of `()`)
    #[verifier::external_body]
    pub fn lock(&self) -> (r: Result<&WakeSender, PoisonError>) ensures r is Ok { unimplemented!() }
}
impl WakeSender {
    #[verifier::external_body]
    pub fn send(&self, v: (), Tracked(a): Tracked<&mut A>) -> (r: Result<(), BincodeError>)
        ensures
            final(a).ev == old(a).ev.push(Ev::Wake),
            final(a).wakeup == old(a).wakeup, final(a).live == old(a).live, final(a).issued == old(a).issued, final(a).delivered == old(a).delivered,
            final(a).stream_of == old(a).stream_of, final(a).forwarded == old(a).forwarded, final(a).pending == old(a).pending,
            final(a).taken == old(a).taken, final(a).fresh == old(a).fresh, final(a).polls == old(a).polls,
    { unimplemented!() }
}
// selections.drain(..) (D24): all elements in order, the vector is left empty
#[verifier::external_body]
pub fn take_vec<T>(dest: &mut Vec<T>) -> (r: Vec<T>) ensures r@ == old(dest)@, final(dest)@ == Seq::<T>::empty() { std::mem::take(dest) }

pub proof fn lemma_msgs_push(r: Seq<IpcSelectionResult>, e: IpcSelectionResult)
    ensures msgs(r.push(e)) == (match e { IpcSelectionResult::MessageReceived(id, m) => msgs(r).push((id, m.mid)), IpcSelectionResult::ChannelClosed(_) => msgs(r) }),
{
    assert(r.push(e).drop_last() == r);
}
pub proof fn lemma_fwd_push(d: Seq<(u64, int)>, x: (u64, int), so: Map<u64, int>, wk: u64)
    ensures fwd(d.push(x), so, wk) == (if x.0 != wk { fwd(d, so, wk).push((so[x.0], x.1)) } else { fwd(d, so, wk) })
{
    assert(d.push(x).drop_last() == d);
}
pub proof fn lemma_fwd_add(a: Seq<(u64, int)>, b: Seq<(u64, int)>, so: Map<u64, int>, wk: u64)
    ensures fwd(a + b, so, wk) == fwd(a, so, wk) + fwd(b, so, wk)
    decreases b.len()
{
    if b.len() == 0 {
        assert(a + b =~= a);
        assert(fwd(a, so, wk) + fwd(b, so, wk) =~= fwd(a, so, wk));
    } else {
        lemma_fwd_add(a, b.drop_last(), so, wk);
        assert((a + b).drop_last() =~= a + b.drop_last());
        assert((a + b).last() == b.last());
        if b.last().0 != wk {
            let y = (so[b.last().0], b.last().1);
            assert(fwd(a, so, wk) + fwd(b.drop_last(), so, wk).push(y) =~= (fwd(a, so, wk) + fwd(b.drop_last(), so, wk)).push(y));
        }
    }
}
// registering a NEW id does not change what the history so far required
pub proof fn lemma_fwd_frame(d: Seq<(u64, int)>, so: Map<u64, int>, id: u64, s: int, wk: u64)
    requires forall|j: int| 0 <= j < d.len() ==> (#[trigger] d[j]).0 != id
    ensures fwd(d, so.insert(id, s), wk) == fwd(d, so, wk)
    decreases d.len()
{
    if d.len() > 0 {
        assert forall|j: int| 0 <= j < d.drop_last().len() implies (#[trigger] d.drop_last()[j]).0 != id by { assert(d.drop_last()[j] == d[j]); }
        lemma_fwd_frame(d.drop_last(), so, id, s, wk);
        assert(d.last() == d[d.len() - 1]);
    }
}
pub proof fn lemma_msgs_ids(r: Seq<IpcSelectionResult>, live: Set<u64>)
    requires forall|j: int| 0 <= j < r.len() ==> live.contains(ev_id(#[trigger] r[j]))
    ensures forall|j: int| 0 <= j < msgs(r).len() ==> live.contains((#[trigger] msgs(r)[j]).0)
    decreases r.len()
{
    if r.len() > 0 {
        assert forall|j: int| 0 <= j < r.drop_last().len() implies live.contains(ev_id(#[trigger] r.drop_last()[j])) by { assert(r.drop_last()[j] == r[j]); }
        lemma_msgs_ids(r.drop_last(), live);
        assert(r.last() == r[r.len() - 1]);
        assert(live.contains(ev_id(r[r.len() - 1])));
        assert forall|j: int| 0 <= j < msgs(r).len() implies live.contains((#[trigger] msgs(r)[j]).0) by {
            match r.last() {
                IpcSelectionResult::MessageReceived(id, m) => { if j < msgs(r.drop_last()).len() { assert(msgs(r)[j] == msgs(r.drop_last())[j]); } },
                IpcSelectionResult::ChannelClosed(_) => {},
            }
        }
    }
}
