// ---------------------------------------------------------------------------
// U7 prelude: src/ipc.rs side tables.  serde / bincode are dependencies: they
// appear as stand-in traits and stubs (D6).  The four thread-local RefCell lists
// become the fields of an explicit `tls: &mut Tls` (D4, TlsWith rule).
// ---------------------------------------------------------------------------
pub trait Serializer: Sized { type Ok; type Error; }
pub trait Serialize {}
pub trait Deserializer<'de>: Sized { type Error; }
pub trait Deserialize<'de>: Sized {}
impl Serialize for usize {}

pub mod bincode {
    pub struct ErrorKind { pub _p: () }
    pub type Error = Box<ErrorKind>;
}
pub mod io { pub struct Error { pub _p: () } }

pub uninterp spec fn ser_written<S: Serializer>(r: Result<S::Ok, S::Error>) -> usize;
// `index.serialize(serializer)` on a usize: writes the value or fails
#[verifier::external_body]
pub fn serialize_usize<S: Serializer>(v: usize, serializer: S) -> (r: Result<S::Ok, S::Error>)
    ensures r is Ok ==> ser_written::<S>(r) == v
{ unimplemented!() }
// `Deserialize::deserialize(deserializer)` at type usize: ANY value may come out of the byte stream
#[verifier::external_body]
pub fn deserialize_usize<'de, D: Deserializer<'de>>(deserializer: D, tls: &mut Tls) -> (r: Result<usize, D::Error>)
    ensures final(tls).ser_channels@ == old(tls).ser_channels@, final(tls).ser_regions@ == old(tls).ser_regions@,
            final(tls).de_channels@ == old(tls).de_channels@, final(tls).de_regions@ == old(tls).de_regions@, final(tls).sent == old(tls).sent,
            r matches Ok(v) ==> final(tls).decoded == old(tls).decoded.push(v),      // ghost: every index read from the byte stream
            r is Err ==> final(tls).decoded == old(tls).decoded,
{ unimplemented!() }
// serde::de::Error::custom(msg)
#[verifier::external_body]
pub fn de_error_custom<'de, D: Deserializer<'de>>(msg: &str) -> (r: D::Error) { unimplemented!() }

impl Clone for OsIpcSender {
    // #[derive(Clone)]: Arc clone, same descriptor
    #[verifier::external_body]
    fn clone(&self) -> (r: OsIpcSender) ensures r.fd.0 == self.fd.0 { unimplemented!() }
}
impl OsIpcReceiver {
    // OsIpcReceiver::from_fd(self.consume_fd()): the new handle owns the descriptor, the old one is left at -1.
    // (Cell::set has no Verus spec; the move itself is the Kani K-ledger harness on the real function.)
    #[verifier::external_body]
    pub fn consume(&self) -> (r: OsIpcReceiver) ensures cell_val(&r.fd) == cell_val(&self.fd) { unimplemented!() }
}
impl Clone for OsIpcSharedMemory {
    // dup + mmap of the same length (unit U8)
    #[verifier::external_body]
    fn clone(&self) -> (r: OsIpcSharedMemory) { unimplemented!() }
}

pub struct SentMsg { pub bytes: Seq<u8>, pub channels: Seq<OsIpcChannel>, pub regions: Seq<OsIpcSharedMemory> }
pub struct Tls {
    pub ser_channels: Vec<OsIpcChannel>,                    // OS_IPC_CHANNELS_FOR_SERIALIZATION
    pub ser_regions: Vec<OsIpcSharedMemory>,                // OS_IPC_SHARED_MEMORY_REGIONS_FOR_SERIALIZATION
    pub de_channels: Vec<Option<OsOpaqueIpcChannel>>,       // OS_IPC_CHANNELS_FOR_DESERIALIZATION (None = already claimed)
    pub de_regions: Vec<Option<OsIpcSharedMemory>>,         // OS_IPC_SHARED_MEMORY_REGIONS_FOR_DESERIALIZATION
    pub ghost sent: Seq<SentMsg>,                            // every message handed to the OS layer, in order
    pub ghost decoded: Seq<usize>,                           // every attachment index read from a byte stream, in order
}

// what a user Serialize impl may do while bincode walks the value (this is also exactly what a nested
// IpcSender::send re-establishes, so nesting is covered inductively):
//  - append to the two serialisation lists (serialize_os_ipc_sender/receiver, IpcSharedMemory::serialize),
//    never touch existing entries;  - leave the deserialisation lists alone;
//  - hand further messages to the OS layer (nested sends), never retract one.
pub open spec fn ser_step(t0: Tls, t1: Tls) -> bool {
    &&& t0.ser_channels@.is_prefix_of(t1.ser_channels@)
    &&& t0.ser_regions@.is_prefix_of(t1.ser_regions@)
    &&& t1.de_channels@ == t0.de_channels@ && t1.de_regions@ == t0.de_regions@
    &&& t0.sent.is_prefix_of(t1.sent)
}
// symmetric for Deserialize impls: they take entries out of the deserialisation lists (length unchanged)
pub open spec fn de_step(t0: Tls, t1: Tls) -> bool {
    &&& t1.ser_channels@ == t0.ser_channels@ && t1.ser_regions@ == t0.ser_regions@
    &&& t1.de_channels@.len() == t0.de_channels@.len() && t1.de_regions@.len() == t0.de_regions@.len()
    &&& forall|i: int| 0 <= i < t1.de_channels@.len() && (#[trigger] t1.de_channels@[i]) is Some ==> t0.de_channels@[i] == t1.de_channels@[i]   // attachments are only ever claimed
    &&& t0.sent.is_prefix_of(t1.sent)
}

// bincode::serialize_into(&mut bytes, &data): appends the encoding, calling T::serialize on the way
#[verifier::external_body]
pub fn bincode_serialize_into<T: Serialize>(bytes: &mut Vec<u8>, data: &T, tls: &mut Tls) -> (r: Result<(), bincode::Error>)
    requires old(tls).ser_channels@.len() == 0 && old(tls).ser_regions@.len() == 0, //@@clause:ipc.IpcSender.send/requires.serialisation_starts_from_empty_attachment_lists
    ensures ser_step(*old(tls), *final(tls))      // on Ok AND on Err: a failing impl may already have pushed entries
{ unimplemented!() }
// bincode::deserialize(&data[..])
#[verifier::external_body]
pub fn bincode_deserialize<T>(data: &[u8], tls: &mut Tls) -> (r: Result<T, bincode::Error>)
    ensures de_step(*old(tls), *final(tls))
{ unimplemented!() }

// bincode::deserialize_from(reader): allocates what a length prefix announces BEFORE checking that the input holds that much
// ("capacity overflow" panic / allocation abort on corrupt input) - unlike the slice entry point, which is total
#[verifier::external_body]
pub fn bincode_deserialize_from<T>(data: &[u8], tls: &mut Tls) -> (r: Result<T, bincode::Error>)
    requires false, //@@clause:ipc.OpaqueIpcMessage.to/requires.decoder_bounds_allocations_by_the_input
    ensures de_step(*old(tls), *final(tls))
{ unimplemented!() }

pub struct IpcSender<T> { pub os_sender: OsIpcSender, pub phantom: PhantomData<T> }
pub struct OpaqueIpcMessage {
    pub data: Vec<u8>,
    pub os_ipc_channels: Vec<Option<OsOpaqueIpcChannel>>,
    pub os_ipc_shared_memory_regions: Vec<Option<OsIpcSharedMemory>>,
}
pub struct IpcSharedMemory { pub os_shared_memory: Option<OsIpcSharedMemory> }
impl IpcSharedMemory {
    pub const fn empty() -> (r: Self) ensures r.os_shared_memory is None { Self { os_shared_memory: None } }
}

impl OsIpcSender {
    // platform send (unit U2) followed by `?`'s From<UnixError> for bincode::Error conversion.
    // Consumes (drops) the attachment vectors in every case.
    #[verifier::external_body]
    pub fn send_converted(&self, data: &[u8], channels: Vec<OsIpcChannel>, shared_memory_regions: Vec<OsIpcSharedMemory>, tls: &mut Tls) -> (r: Result<(), bincode::Error>)
        ensures
            final(tls).ser_channels@ == old(tls).ser_channels@, final(tls).ser_regions@ == old(tls).ser_regions@,
            final(tls).de_channels@ == old(tls).de_channels@, final(tls).de_regions@ == old(tls).de_regions@,
            final(tls).sent == old(tls).sent.push(SentMsg { bytes: data@, channels: channels@, regions: shared_memory_regions@ }),
    { unimplemented!() }
    // the same platform send seen without the conversion (explicit `match` + `From::from` instead of `?`)
    #[verifier::external_body]
    pub fn send(&self, data: &[u8], channels: Vec<OsIpcChannel>, shared_memory_regions: Vec<OsIpcSharedMemory>, tls: &mut Tls) -> (r: Result<(), UnixError>)
        ensures
            final(tls).ser_channels@ == old(tls).ser_channels@, final(tls).ser_regions@ == old(tls).ser_regions@,
            final(tls).de_channels@ == old(tls).de_channels@, final(tls).de_regions@ == old(tls).de_regions@,
            final(tls).sent == old(tls).sent.push(SentMsg { bytes: data@, channels: channels@, regions: shared_memory_regions@ }),
    { unimplemented!() }
}
// From<UnixError> for bincode::Error (src/platform/unix/mod.rs): io::Error::from(unix_error).into()
impl From<UnixError> for Box<bincode::ErrorKind> {
    #[verifier::external_body]
    fn from(e: UnixError) -> (r: Box<bincode::ErrorKind>) { unimplemented!() }
}
impl OsOpaqueIpcChannel {
    #[verifier::external_body]
    pub fn to_sender(&mut self) -> (r: OsIpcSender)
        requires old(self).fd != -1, //@@clause:unix.OsOpaqueIpcChannel.to_sender/requires.not_already_taken
        ensures r.fd.0 == old(self).fd, final(self).fd == -1 { unimplemented!() }
    #[verifier::external_body]
    pub fn to_receiver(&mut self) -> (r: OsIpcReceiver)
        requires old(self).fd != -1, //@@clause:unix.OsOpaqueIpcChannel.to_receiver/requires.not_already_taken
        ensures cell_val(&r.fd) == old(self).fd, final(self).fd == -1 { unimplemented!() }
}

// mem::take on a Vec (D3): returns the old vector, leaves an empty one
#[verifier::external_body]
pub fn take_vec<T>(dest: &mut Vec<T>) -> (r: Vec<T>) ensures r@ == old(dest)@, final(dest)@ == Seq::<T>::empty() { std::mem::take(dest) }

// std: a Vec never holds more than isize::MAX bytes, so for a non-zero-sized element type len <= isize::MAX
#[verifier::external_body]
pub proof fn axiom_vec_len_le_isize_max<T>(v: &Vec<T>) ensures v@.len() <= isize::MAX { }

// ---- thin wrappers of src/ipc.rs (U7b) ----
pub struct IpcReceiver<T> { pub os_receiver: OsIpcReceiver, pub phantom: PhantomData<T> }
pub struct OpaqueIpcSender { pub os_sender: OsIpcSender }
pub struct OpaqueIpcReceiver { pub os_receiver: OsIpcReceiver }
pub struct IpcBytesReceiver { pub os_receiver: OsIpcReceiver }
pub struct IpcBytesSender { pub os_sender: OsIpcSender }
pub enum IpcError { Bincode(bincode::Error), Io(io::Error), Disconnected }
pub enum TryRecvError { IpcError(IpcError), Empty }
pub uninterp spec fn conv_ipc(e: UnixError) -> IpcError;
pub uninterp spec fn conv_try(e: UnixError) -> TryRecvError;
// `err.into()` at type IpcError / TryRecvError: the From impls verified in unit U4b
#[verifier::external_body]
pub fn into_ipc_error(e: UnixError) -> (r: IpcError) ensures r == conv_ipc(e), (r is Disconnected) <==> (e is ChannelClosed) { unimplemented!() }
#[verifier::external_body]
pub fn into_try_recv_error(e: UnixError) -> (r: TryRecvError)
    ensures r == conv_try(e), (r matches TryRecvError::IpcError(IpcError::Disconnected)) <==> (e is ChannelClosed) { unimplemented!() }
pub struct OsRecv { pub ok: bool, pub data: Seq<u8>, pub err: Option<UnixError> }
impl OsIpcReceiver {
    // platform receives (unit U3): the stub records what the transport handed up
    #[verifier::external_body]
    pub fn recv(&self, Tracked(g): Tracked<&mut Seq<OsRecv>>) -> (r: Result<(Vec<u8>, Vec<OsOpaqueIpcChannel>, Vec<OsIpcSharedMemory>), UnixError>)
        ensures *final(g) == old(g).push(OsRecv { ok: r is Ok, data: if r is Ok { r->Ok_0.0@ } else { Seq::empty() }, err: if r is Err { Some(r->Err_0) } else { None } })
    { unimplemented!() }
    #[verifier::external_body]
    pub fn try_recv(&self, Tracked(g): Tracked<&mut Seq<OsRecv>>) -> (r: Result<(Vec<u8>, Vec<OsOpaqueIpcChannel>, Vec<OsIpcSharedMemory>), UnixError>)
        ensures *final(g) == old(g).push(OsRecv { ok: r is Ok, data: if r is Ok { r->Ok_0.0@ } else { Seq::empty() }, err: if r is Err { Some(r->Err_0) } else { None } })
    { unimplemented!() }
}

// `?` on a platform receive converts through these From impls (verified in unit U4b)
impl From<UnixError> for IpcError {
    #[verifier::external_body]
    fn from(e: UnixError) -> (r: IpcError) ensures r == conv_ipc(e), (r is Disconnected) <==> (e is ChannelClosed) { unimplemented!() }
}
impl From<UnixError> for TryRecvError {
    #[verifier::external_body]
    fn from(e: UnixError) -> (r: TryRecvError)
        ensures r == conv_try(e), (r matches TryRecvError::IpcError(IpcError::Disconnected)) <==> (e is ChannelClosed) { unimplemented!() }
}

// what OpaqueIpcMessage::new + the platform receive establish and every decoding step keeps: an attachment still in the table is unclaimed
pub open spec fn unclaimed(t: Tls) -> bool {
    forall|i: int| 0 <= i < t.de_channels@.len() ==> ((#[trigger] t.de_channels@[i]) matches Some(c) ==> c.fd != -1)
}
