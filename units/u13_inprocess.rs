// ---------------------------------------------------------------------------
// U13 prelude: src/platform/inprocess/mod.rs (the transport selected by feature `force-inprocess`).
// crossbeam channels are stand-ins over a ghost world X (ideal unbounded FIFO queues); RefCell is a
// transparent stand-in (D40: dynamic borrow checks and interior mutation are not modelled - functions
// that mutate through a shared RefCell, `consume`, `to_sender`, `to_receiver`, are refused).
// ---------------------------------------------------------------------------
pub struct RefCell<T> { pub v: T }
impl<T> RefCell<T> {
    pub fn new(v: T) -> (r: RefCell<T>) ensures r.v == v { RefCell { v } }
    pub fn borrow(&self) -> (r: &T) ensures *r == self.v { &self.v }
}
pub use std::time::Duration;
pub assume_specification [std::time::Duration::as_millis] (d: &std::time::Duration) -> u128;
pub assume_specification [std::time::Duration::as_secs] (d: &std::time::Duration) -> u64;
pub assume_specification [std::time::Duration::is_zero] (d: &std::time::Duration) -> bool;
pub struct OsIpcSharedMemoryX { pub ghost mid: int }
pub struct Receiver<T> { pub ghost chan: int, pub phantom: PhantomData<T> }     // crossbeam_channel::Receiver
pub struct Sender<T> { pub ghost chan: int, pub phantom: PhantomData<T> }       // crossbeam_channel::Sender
pub struct OsIpcReceiver { pub receiver: RefCell<Option<Receiver<ChannelMessage>>> }
pub struct OsIpcSender { pub sender: RefCell<Sender<ChannelMessage>> }
pub enum OsIpcChannel { Sender(OsIpcSender), Receiver(OsIpcReceiver) }
pub struct OsOpaqueIpcChannel { pub channel: RefCell<Option<OsIpcChannel>> }
pub type OsIpcSharedMemory = OsIpcSharedMemoryX;
pub struct ChannelMessage(pub Vec<u8>, pub Vec<OsIpcChannel>, pub Vec<OsIpcSharedMemory>);
pub enum TryRecvError { Empty, Disconnected }            // crossbeam_channel::TryRecvError
pub enum RecvTimeoutError { Timeout, Disconnected }      // crossbeam_channel::RecvTimeoutError
pub struct RecvError { pub _p: () }
pub struct SendError { pub _p: () }

// one queued message, as the ideal model sees it
pub struct Msg { pub data: Seq<u8>, pub channels: Seq<OsIpcChannel>, pub regions: Seq<OsIpcSharedMemory> }
pub struct X {
    pub q: Map<int, Seq<Msg>>,            // channel -> messages sent and not yet received, oldest first
    pub senders_alive: Map<int, bool>,    // channel -> some sender handle still exists
    pub receiver_alive: Map<int, bool>,   // channel -> the receiver still exists
    pub waits: Seq<(int, Option<Duration>)>,   // blocking / timed receives issued: (channel, timeout)
    pub moved_out: Set<int>,              // channels whose receiver has been moved out of the handle it was created in (consume)
}
pub open spec fn msg_of(m: ChannelMessage) -> Msg { Msg { data: m.0@, channels: m.1@, regions: m.2@ } }

impl Receiver<ChannelMessage> {
    // crossbeam Receiver::recv: the oldest queued message; Err only when the queue is empty and every sender is gone
    #[verifier::external_body]
    pub fn recv(&self, Tracked(x): Tracked<&mut X>) -> (r: Result<ChannelMessage, RecvError>)
        requires old(x).q.contains_key(self.chan),
        ensures
            final(x).senders_alive == old(x).senders_alive, final(x).receiver_alive == old(x).receiver_alive,
            final(x).waits == old(x).waits.push((self.chan, None)), final(x).moved_out == old(x).moved_out,
            r matches Ok(m) ==> old(x).q[self.chan].len() > 0 && msg_of(m) == old(x).q[self.chan][0]
                && final(x).q == old(x).q.insert(self.chan, old(x).q[self.chan].subrange(1, old(x).q[self.chan].len() as int)),
            r is Err ==> old(x).q[self.chan].len() == 0 && !old(x).senders_alive[self.chan] && final(x).q == old(x).q,
    { unimplemented!() }
    #[verifier::external_body]
    pub fn try_recv(&self, Tracked(x): Tracked<&mut X>) -> (r: Result<ChannelMessage, TryRecvError>)
        requires old(x).q.contains_key(self.chan),
        ensures
            final(x).senders_alive == old(x).senders_alive, final(x).receiver_alive == old(x).receiver_alive, final(x).waits == old(x).waits, final(x).moved_out == old(x).moved_out,
            r matches Ok(m) ==> old(x).q[self.chan].len() > 0 && msg_of(m) == old(x).q[self.chan][0]
                && final(x).q == old(x).q.insert(self.chan, old(x).q[self.chan].subrange(1, old(x).q[self.chan].len() as int)),
            r matches Err(e) ==> old(x).q[self.chan].len() == 0 && final(x).q == old(x).q && ((e is Disconnected) <==> !old(x).senders_alive[self.chan]),
    { unimplemented!() }
    #[verifier::external_body]
    pub fn recv_timeout(&self, timeout: Duration, Tracked(x): Tracked<&mut X>) -> (r: Result<ChannelMessage, RecvTimeoutError>)
        requires old(x).q.contains_key(self.chan),
        ensures
            final(x).senders_alive == old(x).senders_alive, final(x).receiver_alive == old(x).receiver_alive,
            final(x).waits == old(x).waits.push((self.chan, Some(timeout))), final(x).moved_out == old(x).moved_out,
            r matches Ok(m) ==> old(x).q[self.chan].len() > 0 && msg_of(m) == old(x).q[self.chan][0]
                && final(x).q == old(x).q.insert(self.chan, old(x).q[self.chan].subrange(1, old(x).q[self.chan].len() as int)),
            r matches Err(e) ==> old(x).q[self.chan].len() == 0 && final(x).q == old(x).q && ((e is Disconnected) <==> !old(x).senders_alive[self.chan]),
    { unimplemented!() }
}
impl Sender<ChannelMessage> {
    // crossbeam Sender::send on an unbounded channel: appends, or fails iff the receiver is gone (nothing queued then)
    #[verifier::external_body]
    pub fn send(&self, m: ChannelMessage, Tracked(x): Tracked<&mut X>) -> (r: Result<(), SendError>)
        requires old(x).q.contains_key(self.chan),
        ensures
            final(x).senders_alive == old(x).senders_alive, final(x).receiver_alive == old(x).receiver_alive, final(x).waits == old(x).waits, final(x).moved_out == old(x).moved_out,
            (r is Ok) <==> old(x).receiver_alive[self.chan],
            r is Ok ==> final(x).q == old(x).q.insert(self.chan, old(x).q[self.chan].push(msg_of(m))),
            r is Err ==> final(x).q == old(x).q,
    { unimplemented!() }
}
// `c.into_iter().map(OsOpaqueIpcChannel::new).collect()`: element-wise, in order (OsOpaqueIpcChannel::new is under contract below)
#[verifier::external_body]
pub fn wrap_channels(c: Vec<OsIpcChannel>) -> (r: Vec<OsOpaqueIpcChannel>)
    ensures r@.len() == c@.len(), forall|i: int| 0 <= i < c@.len() ==> (#[trigger] r@[i]).channel.v == Some(c@[i])
{ unimplemented!() }
// `data.to_vec()`
#[verifier::external_body]
pub fn slice_to_vec(s: &[u8]) -> (r: Vec<u8>) ensures r@ == s@ { s.to_vec() }

pub enum ChannelError { ChannelClosedError, BrokenPipeError, ChannelEmpty, UnknownError }
pub mod io {
    pub struct Error { pub _p: () }
    pub enum ErrorKind { ConnectionReset, BrokenPipe, Other }
}
pub mod bincode { pub struct ErrorKind { pub _p: () } pub type Error = Box<ErrorKind>; }
pub mod ipc {
    pub enum IpcError { Bincode(super::bincode::Error), Io(super::io::Error), Disconnected }
    pub enum TryRecvError { IpcError(IpcError), Empty }
}
// io::Error::from(e).into() : io::Error -> bincode::Error
#[verifier::external_body]
pub fn io_error_into_bincode(e: io::Error) -> (r: bincode::Error) { unimplemented!() }
// From<ChannelError> for io::Error (messages only; not under contract)
#[verifier::external_body]
pub fn io_error_from(e: ChannelError) -> (r: io::Error) { unimplemented!() }
// the same two conversions through the traits, for code that names them separately
impl From<ChannelError> for io::Error {
    #[verifier::external_body]
    fn from(e: ChannelError) -> (r: io::Error) { unimplemented!() }
}
impl From<io::Error> for Box<bincode::ErrorKind> {
    #[verifier::external_body]
    fn from(e: io::Error) -> (r: Box<bincode::ErrorKind>) { unimplemented!() }
}
impl PartialEq for ChannelError {
    #[verifier::external_body]
    fn eq(&self, other: &ChannelError) -> (r: bool) ensures r == (*self == *other) { unimplemented!() }
}

// ---- receiver set (ids) ----
pub struct RangeFromU64 { pub start: u64 }     // std::ops::RangeFrom<u64>
impl RangeFromU64 {
    pub fn next(&mut self) -> (r: Option<u64>)
        requires old(self).start < u64::MAX, //@@clause:inprocess.set.add/requires.id_counter_not_exhausted
        ensures r == Some(old(self).start), final(self).start == old(self).start + 1
    { let v = self.start; self.start = self.start + 1; Some(v) }
}
pub struct OsIpcReceiverSet { pub incrementor: RangeFromU64, pub receiver_ids: Vec<u64>, pub receivers: Vec<OsIpcReceiver> }
impl OsIpcReceiver {
    // consume() as seen by OsIpcReceiverSet::add (the function itself is under contract as `consume_impl` below)
    #[verifier::external_body]
    pub fn consume(&self) -> (r: OsIpcReceiver) ensures r.receiver.v == self.receiver.v { unimplemented!() }
}
// `cell.borrow_mut().take()` on a RefCell<Option<T>> (D48): the content moves to the caller and the cell is left empty.
// The stand-in RefCell cannot change through `&self`; that the cell is now empty is recorded in the ghost world instead.
#[verifier::external_body]
pub fn refcell_take(cell: &RefCell<Option<Receiver<ChannelMessage>>>, Tracked(x): Tracked<&mut X>) -> (r: Option<Receiver<ChannelMessage>>)
    ensures r == cell.v, final(x).q == old(x).q, final(x).senders_alive == old(x).senders_alive, final(x).receiver_alive == old(x).receiver_alive,
            final(x).waits == old(x).waits,
            cell.v matches Some(rx) ==> final(x).moved_out == old(x).moved_out.insert(rx.chan),
            cell.v is None ==> final(x).moved_out == old(x).moved_out,
{ unimplemented!() }
impl Clone for Receiver<ChannelMessage> {
    // crossbeam Receiver::clone: a second consumer of the same queue
    #[verifier::external_body]
    fn clone(&self) -> (r: Receiver<ChannelMessage>) ensures r.chan == self.chan { unimplemented!() }
}

// ---- one-shot server: the global registry ONE_SHOT_SERVERS (Mutex<HashMap<String, ServerRecord>>) ----
// D45: `ONE_SHOT_SERVERS.lock().unwrap()` -> `reg` (mutex elimination: the map is passed in as an exclusive borrow)
pub struct ServerRecord { pub sender: OsIpcSender }     // + the bool channel used for the connect/accept handshake (not modelled)
pub struct ServerMap { pub ghost m: Map<Seq<char>, int> }   // name -> channel of the record's sender
pub struct OsIpcOneShotServer { pub receiver: OsIpcReceiver, pub name: String }
impl ServerMap {
    #[verifier::external_body]
    pub fn get(&self, name: &String) -> (r: Option<&ServerRecord>)
        ensures (r is Some) <==> self.m.contains_key(name@), r matches Some(rec) ==> rec.sender.sender.v.chan == self.m[name@]
    { unimplemented!() }
    #[verifier::external_body]
    pub fn remove(&mut self, name: &String) -> (r: Option<ServerRecord>)
        ensures (r is Some) <==> old(self).m.contains_key(name@), final(self).m == old(self).m.remove(name@)
    { unimplemented!() }
    #[verifier::external_body]
    pub fn insert(&mut self, name: String, record: ServerRecord) -> (r: Option<ServerRecord>)
        ensures final(self).m == old(self).m.insert(name@, record.sender.sender.v.chan)
    { unimplemented!() }
}
impl ServerRecord {
    #[verifier::external_body]
    pub fn new(sender: OsIpcSender) -> (r: ServerRecord) ensures r.sender.sender.v.chan == sender.sender.v.chan { unimplemented!() }
    #[verifier::external_body]
    pub fn clone(&self) -> (r: ServerRecord) ensures r.sender.sender.v.chan == self.sender.sender.v.chan { unimplemented!() }
    // handshake: accept() waits until one client has called connect()
    #[verifier::external_body]
    pub fn accept(&self) { unimplemented!() }
    #[verifier::external_body]
    pub fn connect(&self) { unimplemented!() }
}
// Uuid::new_v4().to_string(): a name no live server has (assumption: version-4 UUIDs do not collide)
#[verifier::external_body]
pub fn fresh_server_name(reg: &ServerMap) -> (r: String) ensures !reg.m.contains_key(r@) { unimplemented!() }
// channel(): a new crossbeam channel with both ends alive and nothing queued
#[verifier::external_body]
pub fn channel(Tracked(x): Tracked<&mut X>) -> (r: Result<(OsIpcSender, OsIpcReceiver), ChannelError>)
    ensures r matches Ok((tx, rx)) ==> rx.receiver.v is Some && tx.sender.v.chan == rx.receiver.v->0.chan && !old(x).q.contains_key(tx.sender.v.chan)
                && final(x).q == old(x).q.insert(tx.sender.v.chan, Seq::<Msg>::empty()) && final(x).waits == old(x).waits && final(x).moved_out == old(x).moved_out,
            r is Err ==> *final(x) == *old(x),
{ unimplemented!() }
