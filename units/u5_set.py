"""U5 - OsIpcReceiverSet::{add, select}.  Verus."""
import re
from vf.gen import Unit, Fn, Clause, Hint, Rule, Loop, AppendArg, GuardedDestructure

F = "src/platform/unix/mod.rs"
S = "Tracked(&mut *s)"
TS = "Tracked(s): Tracked<&mut S>"

R_REGISTER = Rule("B20", r"self\s*\.poll\s*\.registry\(\)\s*\.register\(&mut SourceFd\(&fd\), fd_token, Interest::READABLE\)",
                  "self.poll.register_fd(fd, fd_token, %s)" % S, "mio registry().register(SourceFd, token, READABLE) -> stub")
R_REGISTER2 = AppendArg("B20b", r"\.register\(", S, "mio Registry::register named explicitly -> stub over the ghost world")
R_DEREG = Rule("B21", r"self\s*\.poll\s*\.registry\(\)\s*\.deregister\(&mut SourceFd\(&poll_entry\.fd\)\)",
               "self.poll.deregister_fd(poll_entry.fd, %s)" % S, "mio registry().deregister -> stub", min_count=1)
R_POLL = AppendArg("B22", r"self\.poll\.poll\(", S, "epoll_wait stub over the ghost world", min_count=1)
R_RECV = AppendArg("B23", r"\brecv\(", S, "unix::recv (unit U3) as a stub that logs what the member delivered", min_count=1)
R_CLOSE = AppendArg("B24", r"libc::close\(", S, "close stub over the ledger of owned descriptors", min_count=1, rename="k_close")
R_GUARD = GuardedDestructure()
R_EVITER = Rule("D15", r"self\.events\.iter\(\)", "self.events.v.iter()", "mio Events::iter() == iteration over the stand-in's Vec<Event>", min_count=1)

add = Fn(F, ["impl OsIpcReceiverSet", "add"], ret="r", extra_params=TS,
    requires=[
        Clause("unix.set.add/requires.wf", "old(self).wf(*old(s)) && old(self).incrementor.start < u64::MAX"),
        Clause("unix.set.add/requires.live_receiver_not_yet_a_member",
               "cell_val(&receiver.fd) >= 0 && !old(s).open.contains(cell_val(&receiver.fd)) && !old(s).registered.dom().contains(Token(cell_val(&receiver.fd) as usize))"),
    ],
    ensures=[
        Clause("unix.set.add/ensures.fresh_increasing_id",
               "r matches Ok(id) ==> id == old(self).incrementor.start && final(self).incrementor.start == id + 1\n"
               "&& (forall|t: Token| #[trigger] old(self).pollfds@.contains_key(t) ==> old(self).pollfds@[t].id != id)", ["C06", "C07"]),
        Clause("unix.set.add/ensures.member_registered_under_its_id",
               "r matches Ok(id) ==> final(self).pollfds@ == old(self).pollfds@.insert(Token(cell_val(&receiver.fd) as usize), PollEntry { id: id, fd: cell_val(&receiver.fd) })\n"
               "&& final(s).registered == old(s).registered.insert(Token(cell_val(&receiver.fd) as usize), cell_val(&receiver.fd))", ["C06"]),
        Clause("unix.set.add/ensures.wf", "r is Ok ==> final(self).wf(*final(s))", ["C06", "C11"]),
        Clause("unix.set.add/ensures.failed_add_leaves_set_unchanged", "r is Err ==> final(self).pollfds@ == old(self).pollfds@ && final(s).registered == old(s).registered", ["C06", "C11"]),
        Clause("unix.set.add/ensures.failed_add_leaves_descriptor_with_its_receiver",
               "(r is Err ==> final(s).taken == old(s).taken) && (r is Ok ==> final(s).taken == old(s).taken.insert(cell_val(&receiver.fd)) && final(s).open.contains(cell_val(&receiver.fd)))", ["C11"]),
    ],
    hints=[Hint("body:start", "proof { broadcast use axiom_token_key_model; }")],
    rules=[R_REGISTER, R_REGISTER2, AppendArg("B26", r"receiver\.consume_fd\(", S, "Cell::set stub that records the descriptor leaving its owning receiver", min_count=1)], safety_props=["C18", "C06"])

WF0 = ("old(self).wf(s0) && pf0 == old(self).pollfds@ && rx0 == s0.rx")
SUB = "(forall|t: Token| #[trigger] self.pollfds@.contains_key(t) ==> pf0.contains_key(t) && self.pollfds@[t] == pf0[t])"
RES = ("selection_results@.len() + rx0.len() == s.rx.len()\n"
       "&& (forall|i: int| 0 <= i < selection_results@.len() ==> sel_view(#[trigger] selection_results@[i]) == tagged(s.rx[rx0.len() + i], pf0))")
CLOSED = "(forall|i: int| rx0.len() <= i < s.rx.len() && (#[trigger] s.rx[i]) is Closed ==> !s.open.contains(s.rx[i]->Closed_0) || false)"

select = Fn(F, ["impl OsIpcReceiverSet", "select"], ret="r", extra_params=TS,
    requires=[Clause("unix.set.select/requires.wf", "old(self).wf(*old(s))")],
    ensures=[
        Clause("unix.set.select/ensures.wf", "final(self).wf(*final(s))", ["C06", "C11"]),
        Clause("unix.set.select/ensures.every_observed_event_reported_once_in_order_under_its_id",
               "r matches Ok(v) ==> v@.len() + old(s).rx.len() == final(s).rx.len()\n"
               "&& (forall|i: int| 0 <= i < v@.len() ==> sel_view(#[trigger] v@[i]) == tagged(final(s).rx[old(s).rx.len() + i], old(self).pollfds@))", ["C06", "C12"]),
        Clause("unix.set.select/ensures.ready_members_drained",
               "r is Ok ==> forall|j: int| 0 <= j < final(self).events.v@.len() ==> final(s).drained.contains(old(self).pollfds@[(#[trigger] final(self).events.v@[j]).token].fd)", ["C06", "C02", "C07", "C12"]),
        Clause("unix.set.select/ensures.not_empty_handed_after_eintr", "r is Ok ==> final(s).polled_nonempty", ["C06"]),
        Clause("unix.set.select/ensures.closed_member_released",
               "forall|i: int| old(s).rx.len() <= i < final(s).rx.len() && (#[trigger] final(s).rx[i]) is Closed ==> !final(s).open.contains(final(s).rx[i]->Closed_0)", ["C06", "C11", "C12"]),
    ],
    loops={
        0: Loop(invariants=[
                Clause("unix.set.select/loop0.invariant.untouched", "self.wf(*s) && self.pollfds@ == pf0 && s.rx == rx0 && s.open == s0.open && s.registered == s0.registered")],
             ensures=[
                Clause("unix.set.select/loop0.ensures.batch",
                       "s.polled_nonempty && self.events.v@.len() > 0\n"
                       "&& (forall|i: int| 0 <= i < self.events.v@.len() ==> (#[trigger] self.events.v@[i]).readable && pf0.contains_key(self.events.v@[i].token))\n"
                       "&& (forall|i: int, j: int| 0 <= i < j < self.events.v@.len() ==> (#[trigger] self.events.v@[i]).token != (#[trigger] self.events.v@[j]).token)", ["C06"])]),
        1: Loop(iter_name="it", invariants=[
                Clause("unix.set.select/loop1.invariant.wf", "self.wf(*s) && %s && s.polled_nonempty && self.events.v@ == evs" % SUB, ["C06", "C11"]),
                Clause("unix.set.select/loop1.invariant.pending_tokens_are_members",
                       "forall|j: int| it.index() <= j < evs.len() ==> self.pollfds@.contains_key((#[trigger] evs[j]).token)", ["C06"]),
                Clause("unix.set.select/loop1.invariant.results", RES, ["C06", "C12"]),
                Clause("unix.set.select/loop1.invariant.processed_members_drained",
                       "forall|j: int| 0 <= j < it.index() ==> s.drained.contains(pf0[(#[trigger] evs[j]).token].fd)", ["C06", "C02", "C07", "C12"]),
                Clause("unix.set.select/loop1.invariant.closed_member_released",
                       "forall|i: int| rx0.len() <= i < s.rx.len() && (#[trigger] s.rx[i]) is Closed ==> !s.open.contains(s.rx[i]->Closed_0)", ["C06", "C11", "C12"]),
             ]),
        2: Loop(optional=True,
             except_break=[
                Clause("unix.set.select/loop2.invariant.member_present", "self.pollfds@.contains_key(event_token) && s.open.contains(poll_entry.fd)", ["C06"])],
             invariants=[
                Clause("unix.set.select/loop2.invariant.wf", "self.wf(*s) && %s && s.polled_nonempty && self.events.v@ == evs" % SUB, ["C06", "C11"]),
                Clause("unix.set.select/loop2.invariant.entry", "poll_entry == pf0[event_token] && event_token == evs[idx].token && 0 <= idx < evs.len() && pf0.contains_key(event_token)"),
                Clause("unix.set.select/loop2.invariant.pending_tokens_are_members",
                       "forall|j: int| idx < j < evs.len() ==> self.pollfds@.contains_key((#[trigger] evs[j]).token)", ["C06"]),
                Clause("unix.set.select/loop2.invariant.results", RES, ["C06", "C12"]),
                Clause("unix.set.select/loop2.invariant.processed_members_drained",
                       "forall|j: int| 0 <= j < idx ==> s.drained.contains(pf0[(#[trigger] evs[j]).token].fd)", ["C06", "C02", "C07", "C12"]),
                Clause("unix.set.select/loop2.invariant.closed_member_released",
                       "forall|i: int| rx0.len() <= i < s.rx.len() && (#[trigger] s.rx[i]) is Closed ==> !s.open.contains(s.rx[i]->Closed_0)", ["C06", "C11", "C12"]),
             ],
             ensures=[
                Clause("unix.set.select/loop2.ensures.drained_until_would_block_or_closed", "s.drained.contains(poll_entry.fd)", ["C06", "C12", "C02", "C07"])]),
    },
    hints=[
        Hint("body:start", "let ghost s0 = *s;\nlet ghost pf0 = self.pollfds@;\nlet ghost rx0 = s.rx;\nproof { broadcast use axiom_token_key_model; }"),
        Hint("loop:1:before", "let ghost evs = self.events.v@;"),
        Hint("loop:1:start", "let ghost idx = it.index() as int;\nproof { assert(evs[idx].token == event.token); }"),
        Hint("loop:2:start", "let ghost sb = *s;\nlet ghost res0 = selection_results@;\nlet ghost pfb = self.pollfds@;", optional=True),
        Hint("loop:2:before",
             "proof {\n"
             "    assert(event_token == evs[idx].token);\n"
             "    assert(forall|j: int| 0 <= j < idx ==> pf0[(#[trigger] evs[j]).token].fd != poll_entry.fd);\n"
             "}", "unix.set.select/loop2.invariant.processed_members_drained", optional=True),
    ],
    rules=[R_POLL, R_RECV, R_CLOSE, R_DEREG, R_EVITER, R_GUARD],
    attrs="#[verifier::loop_isolation(false)]\n    #[verifier::allow_complex_invariants]\n    #[verifier::exec_allows_no_decreases_clause]",
    safety_props=["C06", "C18"])

class ValuesFor(Rule):
    """D32: `for &PollEntry { id: _, fd } in self.pollfds.values() {` -> `for entry__ in it: values_vec(&self.pollfds).iter() { let fd = entry__.fd;`
    (reference patterns in `for` are outside this Verus; HashMap::values has no usable iterator spec)."""
    def __init__(self):
        Rule.__init__(self, "D32", r"for\s+(?:&PollEntry\s*\{\s*id:\s*_,\s*fd\s*\}\s+in\s+self\.pollfds\.values\(\)|fd\s+in\s+self\.pollfds\.values\(\)\.map\(\|(\w+)\|\s*\1\.fd\))\s*\{",
                      "", "iteration over the map's values (destructuring pattern, or `.map(|e| e.fd)`)", min_count=1)

    def custom(self, src, m, item, in_skip):
        from vf.gen import Edit
        out = []
        # third spelling: `for entry in self.pollfds.values() {` - the loop variable is the entry itself
        for x in re.compile(r"for\s+(\w+)\s+in\s+self\.pollfds\.values\(\)\s*\{").finditer(m, item.body_open, item.body_close):
            out.append(Edit(x.start(), x.end() - 1, "for entry__ in it: vals__.iter() ", "rule", "D32"))
            out.append(Edit(x.end(), x.end(), "\n            let %s = entry__; /* D32 */" % x.group(1), "rule", "D32"))
        for x in self.regex.finditer(m, item.body_open, item.body_close):
            out.append(Edit(x.start(), x.end() - 1, "for entry__ in it: vals__.iter() ", "rule", "D32"))
            out.append(Edit(x.end(), x.end(), "\n            let fd = entry__.fd; /* D32 */", "rule", "D32"))
        return out

set_drop = Fn(F, ["impl Drop for OsIpcReceiverSet", "drop"], extra_params=TS,
    requires=[Clause("unix.set.drop/requires.wf", "old(self).wf(*old(s))")],
    ensures=[Clause("unix.set.drop/ensures.every_member_closed_exactly_once_nothing_else",
                    "forall|fd: RawFd| !final(s).open.contains(fd)", ["C11", "C06", "C03"])],
    loops={0: Loop(iter_name=None, invariants=[
        Clause("unix.set.drop/loop0.invariant.remaining_members_still_open",
               "0 <= it.index() <= vals__@.len()\n"
               "&& (forall|j: int| it.index() <= j < vals__@.len() ==> s.open.contains((#[trigger] vals__@[j]).fd))\n"
               "&& (forall|fd: RawFd| #[trigger] s.open.contains(fd) ==> exists|j: int| it.index() <= j < vals__@.len() && (#[trigger] vals__@[j]).fd == fd)\n"
               "&& (forall|i: int, j: int| 0 <= i < j < vals__@.len() ==> (#[trigger] vals__@[i]).fd != (#[trigger] vals__@[j]).fd)", ["C11", "C03"])])},
    hints=[
        Hint("body:start",
             "let vals__ = values_vec(&self.pollfds);\n"
             "proof {\n"
             "    broadcast use axiom_token_key_model;\n"
             "    let ks = choose|ks: Seq<Token>| ks.no_duplicates() && ks.to_set() == self.pollfds@.dom() && ks.len() == vals__@.len()\n"
             "        && (forall|i: int| 0 <= i < ks.len() ==> (#[trigger] vals__@[i]) == self.pollfds@[ks[i]]);\n"
             "    assert forall|i: int| 0 <= i < ks.len() implies self.pollfds@.contains_key(#[trigger] ks[i]) by { assert(ks.to_set().contains(ks[i])); }\n"
             "    assert forall|fd: RawFd| #[trigger] s.open.contains(fd) implies exists|j: int| 0 <= j < vals__@.len() && (#[trigger] vals__@[j]).fd == fd by {\n"
             "        let t = Token(fd as usize);\n"
             "        assert(ks.to_set().contains(t));\n"
             "        let j = choose|j: int| 0 <= j < ks.len() && ks[j] == t;\n"
             "        assert(vals__@[j].fd == fd);\n"
             "    }\n"
             "}", "unix.set.drop/loop0.invariant.remaining_members_still_open"),
        Hint("loop:0:start", "let ghost idx = it.index() as int;\nproof { assert(vals__@[idx] == *entry__); }"),
        Hint("loop:0:end",
             "proof {\n"
             "    assert forall|fd2: RawFd| #[trigger] s.open.contains(fd2) implies exists|j: int| idx + 1 <= j < vals__@.len() && (#[trigger] vals__@[j]).fd == fd2 by {\n"
             "        let j = choose|j: int| idx <= j < vals__@.len() && (#[trigger] vals__@[j]).fd == fd2;\n"
             "        assert(j != idx);\n"
             "    }\n"
             "}", "unix.set.drop/loop0.invariant.remaining_members_still_open"),
    ],
    rules=[ValuesFor(), AppendArg("B27", r"libc::close\(", S, "close issued by the set's Drop", rename="k_close_member"),
           AppendArg("B21b", r"\.deregister\(", S, "mio Registry::deregister named explicitly -> stub over the ghost world")],
    attrs="#[verifier::loop_isolation(false)]",
    safety_props=["C11", "C06"])

UNIT = Unit(
    name="u5_set",
    prelude=["units/common.rs", "units/u5_set.rs"],
    groups=[("impl OsIpcReceiverSet", [add, select, set_drop])],
    props=["C02", "C03", "C06", "C07", "C11", "C12"],
    prelude_clauses={
        "unix.set.add/requires.id_counter_not_exhausted": [],
        "unix.set.deregister/requires.registered": ["C06", "C11"],
        "unix.set.recv/requires.descriptor_still_owned": ["C06", "C11", "C18"],
        "unix.set.recv/requires.nonblocking": ["C06", "C10"],
        "unix.set.close/requires.owned_and_open": ["C11", "C06"],
        "unix.set.drop/requires.closes_only_open_descriptors_of_members": ["C11"],
    },
    kernel_clauses=[
        "epoll (edge-triggered, via mio): a batch holds at most 10 distinct registered tokens, all readable; a member is reported again only after it was drained",
        "unix::recv as specified in U3/K4: a whole message, EWOULDBLOCK, ChannelClosed, or another error",
        "the id counter (u64) is not exhausted; open descriptors are pairwise distinct",
        "OsIpcReceiverSet::select has no decreases clause on its poll loop (it waits for events); termination is not claimed",
    ],
)
