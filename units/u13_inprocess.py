"""U13 - src/platform/inprocess/mod.rs: receive mapping, send, error conversions of the in-process transport.  Verus."""
from vf.gen import Unit, Fn, Clause, Hint, Rule, AppendArg

F = "src/platform/inprocess/mod.rs"
XG = "Tracked(&mut *x)"
TX = "Tracked(x): Tracked<&mut X>"
CH = "self.receiver.v->0.chan"
WRAP = Rule("D41", r"(\w+)\s*\.into_iter\(\)\s*\.map\(OsOpaqueIpcChannel::new\)\s*\.collect\(\)", r"wrap_channels(\1)",
            "iterator adapter chain -> stub stating the element-wise wrap")

def rx(name, crossbeam, wait, empty_err):
    ens = [
        Clause("inprocess.%s/ensures.ok_is_the_oldest_queued_message_whole_and_in_order" % name,
               "r matches Ok((d, c, s)) ==> old(x).q[%s].len() > 0 && d@ == old(x).q[%s][0].data && s@ == old(x).q[%s][0].regions\n"
               "&& c@.len() == old(x).q[%s][0].channels.len() && (forall|i: int| 0 <= i < c@.len() ==> (#[trigger] c@[i]).channel.v == Some(old(x).q[%s][0].channels[i]))\n"
               "&& final(x).q == old(x).q.insert(%s, old(x).q[%s].subrange(1, old(x).q[%s].len() as int))" % ((CH,) * 8), ["C19", "C01", "C02"]),
        Clause("inprocess.%s/ensures.closed_iff_nothing_queued_and_no_sender_left" % name,
               "r matches Err(e) ==> old(x).q[%s].len() == 0 && final(x).q == old(x).q\n"
               "&& ((e is ChannelClosedError) <==> !old(x).senders_alive[%s]) && (e is ChannelClosedError || %s)" % (CH, CH, empty_err), ["C19", "C03", "C10"]),
        Clause("inprocess.%s/ensures.waits" % name, "final(x).waits == %s" % wait, ["C19", "C10"]),
    ]
    return Fn(F, ["impl OsIpcReceiver", name], ret="r", extra_params=TX,
        requires=[Clause("inprocess.%s/requires.receiver_not_moved_out" % name, "old(self).receiver.v is Some && old(x).q.contains_key(old(self).receiver.v->0.chan)".replace("old(self)", "self"))],
        ensures=ens,
        rules=[AppendArg("B90", r"\br\.(?:recv|try_recv|recv_timeout)\(", XG, "crossbeam receive stub over the ideal FIFO queue", min_count=1), WRAP],
        safety_props=["C19"])

recv = rx("recv", "recv", "old(x).waits.push((%s, None))" % CH, "false")
try_recv = rx("try_recv", "try_recv", "old(x).waits", "e is ChannelEmpty")
try_recv_timeout = rx("try_recv_timeout", "recv_timeout", "old(x).waits.push((%s, Some(duration)))" % CH, "e is ChannelEmpty")

send = Fn(F, ["impl OsIpcSender", "send"], ret="r", extra_params=TX,
    requires=[Clause("inprocess.send/requires.channel_exists", "old(x).q.contains_key(self.sender.v.chan)")],
    ensures=[
        Clause("inprocess.send/ensures.ok_appends_exactly_this_message_once",
               "r is Ok ==> final(x).q == old(x).q.insert(self.sender.v.chan, old(x).q[self.sender.v.chan].push(Msg { data: data@, channels: ports@, regions: shared_memory_regions@ }))", ["C19", "C01", "C02"]),
        Clause("inprocess.send/ensures.fails_iff_receiver_gone_with_a_send_error_not_closed",
               "((r is Ok) <==> old(x).receiver_alive[self.sender.v.chan]) && (r matches Err(e) ==> e is BrokenPipeError && final(x).q == old(x).q)", ["C19", "C09"]),
    ],
    rules=[AppendArg("B91", r"\.send\(", XG, "crossbeam send stub over the ideal FIFO queue", min_count=1),
           Rule("D42", r"data\.to_vec\(\)", "slice_to_vec(data)", "slice::to_vec"),
           Rule("D43", r"\.map_err\(\|_\|\s*(ChannelError::\w+)\)", r".map_err(|e__: SendError| -> (r__: ChannelError) ensures r__ == \1 { \1 })",
                "`|_|` closures are outside this Verus; constant closure annotated with its own body")],
    safety_props=["C19"])

conv_ipc = Fn(F, ["impl From<ChannelError> for ipc::IpcError", "from"], ret="r",
    ensures=[Clause("inprocess.From<ChannelError>.IpcError/ensures.disconnected_iff_closed", "(r is Disconnected) <==> (error is ChannelClosedError)", ["C19", "C03"])],
    rules=[Rule("D44", r"io::Error::from\(e\)\.into\(\)", "io_error_into_bincode(io_error_from(e))", "io::Error::from + into at type bincode::Error")],
    safety_props=["C19"])
conv_try = Fn(F, ["impl From<ChannelError> for ipc::TryRecvError", "from"], ret="r",
    ensures=[Clause("inprocess.From<ChannelError>.TryRecvError/ensures.empty_iff_empty_disconnected_iff_closed",
                    "((r is Empty) <==> (error is ChannelEmpty)) && ((r matches ipc::TryRecvError::IpcError(ipc::IpcError::Disconnected)) <==> (error is ChannelClosedError))", ["C19", "C03", "C10"])],
    rules=[Rule("D44", r"io::Error::from\(e\)\.into\(\)", "io_error_into_bincode(io_error_from(e))", "io::Error::from + into at type bincode::Error")],
    safety_props=["C19"])
is_closed = Fn(F, ["impl ChannelError", "channel_is_closed"], ret="r",
    ensures=[Clause("inprocess.ChannelError.channel_is_closed/ensures.only_closed", "r == (*self is ChannelClosedError)", ["C19", "C03"])],
    safety_props=["C19"])

consume = Fn(F, ["impl OsIpcReceiver", "consume"], ret="r", extra_params=TX, rename="consume_impl",
    ensures=[Clause("inprocess.consume/ensures.receiver_moves_out_of_the_handle_it_was_sent_from",
                    "r.receiver.v == self.receiver.v && (self.receiver.v matches Some(rx) ==> final(x).moved_out == old(x).moved_out.insert(rx.chan))\n"
                    "&& final(x).q == old(x).q", ["C19", "C04"])],
    rules=[Rule("D48", r"self\s*\.receiver\s*\.borrow_mut\(\)\s*\.take\(\)", "refcell_take(&self.receiver, %s)" % XG,
                "RefCell<Option<T>>::borrow_mut().take(): content moves out, emptiness recorded in the ghost world")],
    safety_props=["C19"])

set_add = Fn(F, ["impl OsIpcReceiverSet", "add"], ret="r",
    requires=[Clause("inprocess.set.add/requires.wf", "old(self).receiver_ids@.len() == old(self).receivers@.len() && old(self).incrementor.start < u64::MAX\n"
                     "&& (forall|i: int| 0 <= i < old(self).receiver_ids@.len() ==> (#[trigger] old(self).receiver_ids@[i]) < old(self).incrementor.start)")],
    ensures=[
        Clause("inprocess.set.add/ensures.fresh_increasing_id",
               "r matches Ok(id) && id == old(self).incrementor.start && final(self).incrementor.start == id + 1\n"
               "&& (forall|i: int| 0 <= i < old(self).receiver_ids@.len() ==> (#[trigger] old(self).receiver_ids@[i]) != id)", ["C19", "C06"]),
        Clause("inprocess.set.add/ensures.member_recorded_under_its_id",
               "final(self).receiver_ids@ == old(self).receiver_ids@.push(old(self).incrementor.start) && final(self).receivers@.len() == old(self).receivers@.len() + 1\n"
               "&& final(self).receivers@.last().receiver.v == receiver.receiver.v && final(self).receivers@.subrange(0, old(self).receivers@.len() as int) == old(self).receivers@", ["C19", "C06"]),
    ],
    safety_props=["C19"])
opaque_new = Fn(F, ["impl OsOpaqueIpcChannel", "new"], ret="r",
    ensures=[Clause("inprocess.OsOpaqueIpcChannel.new/ensures.holds_exactly_this_channel", "r.channel.v == Some(channel)", ["C19", "C04"])],
    safety_props=["C19"])
max_frag = Fn(F, ["impl OsIpcSender", "get_max_fragment_size"], ret="r",
    ensures=[Clause("inprocess.get_max_fragment_size/ensures.never_fragments", "r == usize::MAX", ["C19"])],
    safety_props=["C19"])

REG = Rule("D45", r"ONE_SHOT_SERVERS\s*\.lock\(\)\s*\.unwrap\(\)", "reg", "mutex elimination: the registry is passed in as an exclusive borrow", min_count=1)
TR = "reg: &mut ServerMap, " + TX
srv_new = Fn(F, ["impl OsIpcOneShotServer", "new"], ret="r", extra_params=TR,
    ensures=[
        Clause("inprocess.server_new/ensures.registered_under_a_name_no_other_server_has",
               "r matches Ok((srv, name)) ==> !old(reg).m.contains_key(name@) && srv.name@ == name@ && srv.receiver.receiver.v is Some\n"
               "&& final(reg).m == old(reg).m.insert(name@, srv.receiver.receiver.v->0.chan)", ["C19", "C08"]),
        Clause("inprocess.server_new/ensures.failure_registers_nothing", "r is Err ==> final(reg).m == old(reg).m", ["C19", "C08"]),
    ],
    rules=[REG, Rule("D46", r"Uuid::new_v4\(\)\.to_string\(\)", "fresh_server_name(&*reg)", "uuid: a fresh name"),
           AppendArg("B92", r"\bchannel\(", XG, "crossbeam unbounded(): a new ideal queue", min_count=1)],
    safety_props=["C19"])
srv_accept = Fn(F, ["impl OsIpcOneShotServer", "accept"], ret="r", extra_params=TR,
    requires=[Clause("inprocess.accept/requires.server_registered",
                     "old(reg).m.contains_key(self.name@) && self.receiver.receiver.v is Some && old(reg).m[self.name@] == self.receiver.receiver.v->0.chan\n"
                     "&& old(x).q.contains_key(self.receiver.receiver.v->0.chan)")],
    ensures=[
        Clause("inprocess.accept/ensures.registry_entry_and_its_hidden_sender_gone",
               "final(reg).m == old(reg).m.remove(self.name@)", ["C19", "C08", "C03"]),
        Clause("inprocess.accept/ensures.first_message_then_the_same_receiver",
               "r matches Ok((rx, d, c, s)) ==> rx.receiver.v == self.receiver.receiver.v && old(x).q[self.receiver.receiver.v->0.chan].len() > 0\n"
               "&& d@ == old(x).q[self.receiver.receiver.v->0.chan][0].data && s@ == old(x).q[self.receiver.receiver.v->0.chan][0].regions", ["C19", "C08"]),
    ],
    rules=[REG, AppendArg("B93", r"self\.receiver\.recv\(", XG, "the transport's own recv (under contract above)", min_count=1)],
    safety_props=["C19"])
snd_connect = Fn(F, ["impl OsIpcSender", "connect"], ret="r", extra_params=TR,
    requires=[Clause("inprocess.connect/requires.server_exists", "old(reg).m.contains_key(name@)")],
    ensures=[Clause("inprocess.connect/ensures.sender_of_the_named_servers_channel",
                    "r matches Ok(s) && s.sender.v.chan == old(reg).m[name@] && final(reg).m == old(reg).m && *final(x) == *old(x)", ["C19", "C08"])],
    rules=[REG],
    safety_props=["C19"])

UNIT = Unit(
    name="u13_inprocess",
    prelude=["units/common.rs", "units/u13_inprocess.rs"],
    groups=[("impl OsIpcReceiver", [recv, try_recv, try_recv_timeout, consume]), ("impl OsIpcSender", [send, max_frag, snd_connect]), ("impl OsIpcOneShotServer", [srv_new, srv_accept]), ("impl OsIpcReceiverSet", [set_add]), ("impl OsOpaqueIpcChannel", [opaque_new]),
            ("impl ipc::IpcError", [conv_ipc]), ("impl ipc::TryRecvError", [conv_try]),
            ("impl ChannelError", [is_closed])],
    props=["C19", "C01", "C02", "C03", "C04", "C09", "C10"],
    prelude_clauses={"inprocess.set.add/requires.id_counter_not_exhausted": []},
    kernel_clauses=[
        "crossbeam unbounded channels are ideal FIFO queues: send appends or fails iff the receiver is gone; recv/try_recv/recv_timeout take the oldest message, report Disconnected only when the queue is empty and no sender is left",
        "RefCell is a transparent stand-in: dynamic borrow panics and mutation through a shared RefCell are not modelled",
    ],
)
