// ---------------------------------------------------------------------------
// U3 prelude: stand-ins and boundary stubs for unix::recv.
// ---------------------------------------------------------------------------
// Vec operations vstd has no (sufficient) spec for.  set_len: bytes past the old
// length are *unspecified* (uninitialised memory) - so a postcondition that pins
// every byte of the result can only be proved if the transport wrote every byte.
pub uninterp spec fn vec_cap<T, A: std::alloc::Allocator>(v: &Vec<T, A>) -> nat;
pub assume_specification<T, A: std::alloc::Allocator> [Vec::<T, A>::capacity] (v: &Vec<T, A>) -> (r: usize)
    ensures r == vec_cap(v), r >= v@.len();
pub assume_specification<T, A: std::alloc::Allocator> [Vec::<T, A>::reserve_exact] (v: &mut Vec<T, A>, n: usize)
    requires old(v)@.len() + n <= isize::MAX   // std panics ("capacity overflow") beyond isize::MAX bytes
    ensures final(v)@ == old(v)@, vec_cap(final(v)) >= old(v)@.len() + n;
pub assume_specification<T, A: std::alloc::Allocator> [Vec::<T, A>::set_len] (v: &mut Vec<T, A>, n: usize)
    requires n <= vec_cap(old(v))              // std's safety contract of set_len //@@clause:std.set_len/requires.le_capacity
    ensures final(v)@.len() == n, vec_cap(final(v)) == vec_cap(old(v)),
        forall|i: int| 0 <= i < n && i < old(v)@.len() ==> final(v)@[i] == old(v)@[i],
        n <= old(v)@.len() ==> final(v)@ == old(v)@.subrange(0, n as int),                    // truncation
        n >= old(v)@.len() ==> final(v)@.subrange(0, old(v)@.len() as int) == old(v)@;        // extension: old part kept, new part unspecified
#[verifier::external_body]
pub fn vec_with_capacity(n: usize) -> (v: Vec<u8>) ensures v@.len() == 0, vec_cap(&v) >= n { Vec::with_capacity(n) }

// x86_64-linux-gnu layout of the repository's #[repr(C)] cmsghdr { usize, c_int, c_int }
pub struct cmsghdr { pub cmsg_len: usize, pub cmsg_level: c_int, pub cmsg_type: c_int }
global size_of cmsghdr == 16;

#[derive(Copy, Clone)]
pub enum BlockingMode { Blocking, Nonblocking, Timeout(std::time::Duration) }

// fstat + S_ISSOCK
#[verifier::external_body]
pub fn is_socket(fd: c_int, Tracked(k): Tracked<&K>) -> (r: bool) ensures r == k.sock.contains(fd) { unimplemented!() }

// the two iovecs handed to recvmsg: only their lengths matter to the model
pub struct IoVec2 { pub len0: usize, pub len1: usize }

// stand-in for UnixCmsg (malloc'd control buffer of CMSG_SPACE(64*4) bytes + msghdr).
// The contract of `recv` below is the statement the Kani harnesses K4 prove about the
// real UnixCmsg::recv at the syscall level (one recvmsg, result mapping) composed with
// the kernel model of recvmsg on SOCK_SEQPACKET.
pub struct UnixCmsg { pub ghost got: Option<Packet>, pub ghost iov: IoVec2 }
impl UnixCmsg {
    #[verifier::external_body]
    pub fn new(iovec: &mut IoVec2) -> (r: Result<UnixCmsg, UnixError>)
        ensures r matches Ok(c) ==> c.got is None && c.iov == *old(iovec), *final(iovec) == *old(iovec),
            r matches Err(e) ==> e == UnixError::Errno(libc::ENOMEM)   // malloc failed: UnixError::last()
    { unimplemented!() }

    #[verifier::external_body]
    pub fn recv(&mut self, fd: c_int, blocking_mode: BlockingMode, total_size: &mut usize, buf: &mut Vec<u8>, Tracked(k): Tracked<&mut K>) -> (r: Result<usize, UnixError>)
        requires
            old(k).q.dom().contains(fd),
            old(self).iov.len0 == 8, //@@clause:unix.UnixCmsg.recv/requires.header_iovec_is_usize
            old(self).iov.len1 == old(buf)@.len(), //@@clause:unix.UnixCmsg.recv/requires.data_iovec_is_buffer_len
        ensures
            final(buf)@.len() == old(buf)@.len(), vec_cap(final(buf)) == vec_cap(old(buf)),
            final(k).sock == old(k).sock, final(k).peer == old(k).peer, final(k).log == old(k).log,
            final(k).rx_modes == old(k).rx_modes.push((fd, mode_code(blocking_mode))),
            final(self).iov == old(self).iov,
            r matches Ok(n) ==> {
                let p = old(k).q[fd].first();
                &&& old(k).q[fd].len() > 0
                &&& final(k).q == old(k).q.insert(fd, old(k).q[fd].drop_first())   // exactly one packet consumed
                &&& final(self).got == Some(p)
                &&& p.hdr is Some && *final(total_size) == p.hdr->Some_0
                &&& n >= 8 && n <= 8 + old(buf)@.len()
                // SEQPACKET: a packet longer than the offered buffer is truncated and the rest lost
                &&& p.data.len() <= old(buf)@.len() ==> n == 8 + p.data.len() && final(buf)@.subrange(0, p.data.len() as int) == p.data
                &&& p.data.len() > old(buf)@.len() ==> n == 8 + old(buf)@.len()
            },
            r is Err ==> final(k).q == old(k).q && final(self).got is None,
            r is Ok ==> final(k).errno == old(k).errno,
            r matches Err(UnixError::Errno(c)) ==> final(k).errno == c,
            // kernel: "would block" iff nothing is queued on the socket
            r matches Err(UnixError::Errno(c)) ==> (c == libc::EAGAIN ==> old(k).q[fd].len() == 0),
            // zero-length read: no packet queued (and, kernel: no sender left)
            r matches Err(UnixError::ChannelClosed) ==> old(k).q[fd].len() == 0,
    { unimplemented!() }

    // cmsg.msghdr.msg_controllen after recvmsg
    #[verifier::external_body]
    pub fn msg_controllen(&self) -> (r: usize) requires self.got is Some
        ensures r == (if self.got->Some_0.fds.len() == 0 { 0nat } else { (16 + spec_cmsg_align(4 * self.got->Some_0.fds.len())) as nat })
    { unimplemented!() }
    #[verifier::external_body]
    pub fn cmsg_len(&self) -> (r: size_t)
        requires self.got is Some,
            self.got->Some_0.fds.len() > 0, //@@clause:unix.UnixCmsg.cmsg_len/requires.control_data_present
        ensures r == 16 + 4 * self.got->Some_0.fds.len()
    { unimplemented!() }
    // *cmsg_fds.add(index): a 4-byte read at CMSG_DATA + 4*index inside the malloc'd control buffer
    #[verifier::external_body]
    pub fn fd_at(&self, index: usize) -> (r: c_int)
        requires self.got is Some,
            index < self.got->Some_0.fds.len(), //@@clause:unix.recv.fd_at/requires.index_lt_received
            index < MAX_FDS_IN_CMSG, //@@clause:unix.recv.fd_at/requires.inside_control_buffer
        ensures r == self.got->Some_0.fds[index as int]
    { unimplemented!() }
}

pub open spec fn spec_cmsg_align(n: nat) -> nat { ((n + 7) / 8 * 8) as nat }

// libc::recv(fd, buf[write_pos..].as_mut_ptr(), len, flags) on the dedicated socket
#[verifier::external_body]
pub fn k_recv(Tracked(k): Tracked<&mut K>, fd: c_int, buf: &mut Vec<u8>, write_pos: usize, len: usize, flags: c_int) -> (r: isize)
    requires
        old(k).q.dom().contains(fd),
        write_pos + len <= old(buf)@.len(), //@@clause:unix.recv.k_recv/requires.write_inside_buffer
        flags == 0, //@@clause:unix.recv.k_recv/requires.blocking_read
    ensures
        final(buf)@.len() == old(buf)@.len(), vec_cap(final(buf)) == vec_cap(old(buf)),
        final(buf)@.subrange(0, write_pos as int) == old(buf)@.subrange(0, write_pos as int),
        final(k).sock == old(k).sock, final(k).peer == old(k).peer, final(k).log == old(k).log, final(k).rx_modes == old(k).rx_modes,
        r > 0 ==> {
            let p = old(k).q[fd].first();
            &&& old(k).q[fd].len() > 0
            &&& final(k).q == old(k).q.insert(fd, old(k).q[fd].drop_first())
            &&& p.data.len() <= len ==> r == p.data.len() && final(buf)@.subrange(write_pos as int, write_pos + r) == p.data
                    && final(buf)@.subrange(0, write_pos + r) == old(buf)@.subrange(0, write_pos as int) + p.data
            &&& p.data.len() > len ==> r == len    // truncated: rest of the packet lost
        },
        r == 0 ==> old(k).q[fd].len() == 0 && old(k).q[fd] == Seq::<Packet>::empty() && final(k).q == old(k).q,
        r < 0 ==> final(k).q == old(k).q,
        // a zero-length read does NOT set errno (it stays whatever an earlier call left); a failing BLOCKING read never says "would block"
        r >= 0 ==> final(k).errno == old(k).errno,
        r < 0 ==> final(k).errno != libc::EAGAIN && final(k).errno != libc::EWOULDBLOCK,
{ unimplemented!() }

// order-preserving split of the received descriptors
pub open spec fn socks(fds: Seq<c_int>, s: Set<c_int>) -> Seq<c_int> decreases fds.len() {
    if fds.len() == 0 { Seq::empty() } else if s.contains(fds.last()) { socks(fds.drop_last(), s).push(fds.last()) } else { socks(fds.drop_last(), s) }
}
pub open spec fn nonsocks(fds: Seq<c_int>, s: Set<c_int>) -> Seq<c_int> decreases fds.len() {
    if fds.len() == 0 { Seq::empty() } else if !s.contains(fds.last()) { nonsocks(fds.drop_last(), s).push(fds.last()) } else { nonsocks(fds.drop_last(), s) }
}

// What may sit at the head of a channel's socket: a first packet written by OsIpcSender::send
// (U2's postcondition), followed on its dedicated socket by ANY PREFIX of its follow-ups
// (complete emission, or the sender died / gave up part-way: crash-prefix, C12).
pub open spec fn head_ok(k: K, fd: c_int) -> bool {
    let p = k.q[fd].first();
    k.q[fd].len() > 0 ==> {
        &&& p.hdr is Some && p.hdr->Some_0 <= isize::MAX
        &&& p.data.len() <= spec_first(sys_sendbuf())
        &&& p.fds.len() <= MAX_FDS_IN_CMSG
        &&& p.data.len() <= p.hdr->Some_0
        &&& p.data.len() != p.hdr->Some_0 ==> {
                let ded = p.fds.last();
                &&& p.fds.len() > 0 && k.sock.contains(ded) && k.q.dom().contains(ded) && ded != fd
                &&& followups_ok(k.q[ded])
                &&& p.data.len() + flat(k.q[ded]).len() <= p.hdr->Some_0
            }
    }
}
pub open spec fn head_complete(k: K, fd: c_int) -> bool {
    let p = k.q[fd].first();
    k.q[fd].len() > 0 && (p.data.len() != p.hdr->Some_0 ==> p.data.len() + flat(k.q[p.fds.last()]).len() == p.hdr->Some_0)
}
// the payload a complete head denotes
pub open spec fn head_payload(k: K, fd: c_int) -> Seq<u8> {
    let p = k.q[fd].first();
    if p.data.len() == p.hdr->Some_0 { p.data } else { p.data + flat(k.q[p.fds.last()]) }
}

pub open spec fn recv_ok_post(k0: K, k1: K, fd: c_int, d: Seq<u8>, c: Seq<OsOpaqueIpcChannel>, s: Seq<OsIpcSharedMemory>) -> bool {
    let p = k0.q[fd].first();
    &&& k0.q[fd].len() > 0
    &&& d.len() == p.hdr->Some_0                       // never a shortened payload presented as complete
    &&& d == head_payload(k0, fd)                      // and every byte is a byte the sender's packets carried
    &&& k1.q[fd] == k0.q[fd].drop_first()              // exactly one packet consumed from the channel's socket
    &&& region_fds(s) == nonsocks(p.fds, k0.sock)
    &&& if p.data.len() == p.hdr->Some_0 {
            &&& opaque_fds(c) == socks(p.fds, k0.sock)
            &&& k1.q == k0.q.insert(fd, k1.q[fd])
        } else {
            let ded = p.fds.last();
            &&& opaque_fds(c) == socks(p.fds, k0.sock).drop_last()     // the dedicated receiver is not handed out
            &&& k1.q == k0.q.insert(fd, k1.q[fd]).insert(ded, Seq::empty())   // follow-ups drained, nothing else touched
        }
}

pub proof fn lemma_socks_push(fds: Seq<c_int>, x: c_int, s: Set<c_int>)
    ensures
        socks(fds.push(x), s) == (if s.contains(x) { socks(fds, s).push(x) } else { socks(fds, s) }),
        nonsocks(fds.push(x), s) == (if !s.contains(x) { nonsocks(fds, s).push(x) } else { nonsocks(fds, s) }),
{
    assert(fds.push(x).drop_last() == fds);
}
pub proof fn lemma_flat_len_first(q: Seq<Packet>)
    requires q.len() > 0
    ensures flat(q).len() == q.first().data.len() + flat(q.drop_first()).len()
{
    lemma_flat_first(q);
}
pub proof fn lemma_flat_pos(q: Seq<Packet>)
    requires followups_ok(q)
    ensures q.len() > 0 ==> flat(q).len() > 0, q.len() == 0 ==> flat(q).len() == 0
    decreases q.len()
{
    if q.len() > 0 { lemma_flat_first(q); }
}
pub proof fn lemma_followups_drop_first(q: Seq<Packet>)
    requires followups_ok(q), q.len() > 0
    ensures followups_ok(q.drop_first())
{
    assert forall|i: int| 0 <= i < q.drop_first().len() implies (#[trigger] q.drop_first()[i]).hdr is None && q.drop_first()[i].fds.len() == 0
        && 0 < q.drop_first()[i].data.len() <= spec_frag(sys_sendbuf()) by {
        assert(q.drop_first()[i] == q[i + 1]);
    }
}

impl UnixError {
    // UnixError::last(): io::Error::last_os_error() - whatever errno holds NOW
    #[verifier::external_body]
    pub fn last_with(Tracked(k): Tracked<&K>) -> (r: UnixError) ensures r == UnixError::Errno(k.errno) { unimplemented!() }
}

// ---- the receive loop around recv_message: abandoned emissions are skipped ----
// queue state of the channel after its head emission has been consumed (its dedicated socket, if it has one, drained)
pub open spec fn after_head(q: Map<c_int, Seq<Packet>>, fd: c_int) -> Map<c_int, Seq<Packet>> {
    let p = q[fd].first();
    if p.data.len() == p.hdr->Some_0 { q.insert(fd, q[fd].drop_first()) }
    else { q.insert(fd, q[fd].drop_first()).insert(p.fds.last(), Seq::<Packet>::empty()) }
}
pub open spec fn with_q(k: K, q: Map<c_int, Seq<Packet>>) -> K { K { q: q, ..k } }
// the first n emissions queued on fd are as U2 writes them (each judged once the ones before it are consumed)
pub open spec fn heads_ok(k: K, q: Map<c_int, Seq<Packet>>, fd: c_int, n: nat) -> bool decreases n {
    n == 0 || (q.dom().contains(fd) && head_ok(with_q(k, q), fd) && (q[fd].len() > 0 ==> heads_ok(k, after_head(q, fd), fd, (n - 1) as nat)))
}
// state reached from q by consuming n emissions, every one of which was abandoned by its sender (incomplete)
pub open spec fn skipped(k: K, q: Map<c_int, Seq<Packet>>, fd: c_int, n: nat, q1: Map<c_int, Seq<Packet>>) -> bool decreases n {
    if n == 0 { q1 == q } else { q[fd].len() > 0 && !head_complete(with_q(k, q), fd) && skipped(k, after_head(q, fd), fd, (n - 1) as nat, q1) }
}
pub proof fn lemma_skipped_snoc(k: K, q: Map<c_int, Seq<Packet>>, fd: c_int, n: nat, q1: Map<c_int, Seq<Packet>>)
    requires skipped(k, q, fd, n, q1), q1[fd].len() > 0, !head_complete(with_q(k, q1), fd)
    ensures skipped(k, q, fd, n + 1, after_head(q1, fd))
    decreases n
{
    if n == 0 {
        assert(skipped(k, after_head(q, fd), fd, 0, after_head(q1, fd)));
    } else {
        lemma_skipped_snoc(k, after_head(q, fd), fd, (n - 1) as nat, q1);
    }
}

// the blocking mode as a number (for the ghost log of first-packet receives)
pub uninterp spec fn mode_code(m: BlockingMode) -> int;

// the repository imports these two names from libc unqualified
pub const EWOULDBLOCK: c_int = 11;
pub const EAGAIN: c_int = 11;
