"""U11 - src/asynch.rs: the routing thread's closure body, IpcReceiver::to_stream, IpcStream::poll_next.  Verus."""
from vf.gen import Unit, Fn, BlockFn, Clause, Hint, Rule, Loop, AppendArg

F = "src/asynch.rs"
A = "Tracked(&mut *a)"
TA = "Tracked(a): Tracked<&mut A>"

WK = "a.wakeup == wk && a.issued.contains(wk) && !a.stream_of.contains_key(wk) && a.stream_of.dom().subset_of(a.issued) && a.live.subset_of(a.issued)"
UNTOUCHED = "a.ev == a0.ev && a.fresh == a0.fresh && a.polls == a0.polls"

OUTER = [
    Clause("asynch.thread/loop0.invariant.ids", WK + " && " + UNTOUCHED),
    Clause("asynch.thread/loop0.invariant.every_live_route_has_the_sender_queued_with_it",
           "forall|id: u64| a.live.contains(id) && id != wk ==> #[trigger] senders@.contains_key(id)", ["C20"]),
    Clause("asynch.thread/loop0.invariant.no_sender_outlives_its_channel",
           "forall|id: u64| #[trigger] senders@.contains_key(id) ==> id != wk && a.live.contains(id) && a.stream_of.contains_key(id) && senders@[id].chan == a.stream_of[id]", ["C20"]),
    Clause("asynch.thread/loop0.invariant.forwarded_exactly_the_delivered_messages",
           "a.forwarded == fwd(a.delivered, a.stream_of, wk) && (forall|j: int| 0 <= j < a.delivered.len() ==> a.issued.contains((#[trigger] a.delivered[j]).0))", ["C20"]),
]

INNER = [
    Clause("asynch.thread/loop1.invariant.batch", "it.seq() == rs && batch_ok(rs, live0) && live0.subset_of(a.issued) && 0 <= it.index() <= rs.len()"),
    Clause("asynch.thread/loop1.invariant.ids", WK + " && " + UNTOUCHED + " && a.stream_of == so0 && a.issued == a0i"),
    Clause("asynch.thread/loop1.invariant.pending_events_have_senders",
           "forall|j: int| it.index() <= j < rs.len() && ev_id(#[trigger] rs[j]) != wk ==> senders@.contains_key(ev_id(rs[j]))", ["C20"]),
    Clause("asynch.thread/loop1.invariant.every_live_route_has_the_sender_queued_with_it",
           "forall|id: u64| a.live.contains(id) && id != wk ==> #[trigger] senders@.contains_key(id)", ["C20"]),
    Clause("asynch.thread/loop1.invariant.no_sender_outlives_its_channel",
           "forall|id: u64| #[trigger] senders@.contains_key(id) ==> id != wk && a.stream_of.contains_key(id) && senders@[id].chan == a.stream_of[id] && (a.live.contains(id)\n"
           "    || exists|j: int| it.index() <= j < rs.len() && (#[trigger] rs[j]) is ChannelClosed && ev_id(rs[j]) == id)", ["C20"]),
    Clause("asynch.thread/loop1.invariant.closed_routes_are_not_live",
           "forall|j: int| 0 <= j < rs.len() && (#[trigger] rs[j]) is ChannelClosed ==> !a.live.contains(ev_id(rs[j]))"),
    Clause("asynch.thread/loop1.invariant.forwarded_exactly_once_in_order",
           "a.delivered == d0 + msgs(rs) && a.forwarded == fwd(d0, so0, wk) + fwd(msgs(rs.subrange(0, it.index() as int)), so0, wk)", ["C20"]),
]

DRAIN = [
    Clause("asynch.thread/loop2.invariant.ids", WK + " && " + UNTOUCHED + " && a.delivered == d1 && a.forwarded == f1"),
    Clause("asynch.thread/loop2.invariant.every_live_route_has_the_sender_queued_with_it",
           "forall|id: u64| a.live.contains(id) && id != wk ==> #[trigger] senders@.contains_key(id)", ["C20"]),
    Clause("asynch.thread/loop2.invariant.no_sender_outlives_its_channel",
           "forall|id: u64| #[trigger] senders@.contains_key(id) ==> id != wk && a.live.contains(id) && a.stream_of.contains_key(id) && senders@[id].chan == a.stream_of[id]", ["C20"]),
    Clause("asynch.thread/loop2.invariant.forwarded_exactly_the_delivered_messages",
           "a.forwarded == fwd(a.delivered, a.stream_of, wk) && (forall|j: int| 0 <= j < a.delivered.len() ==> a.issued.contains((#[trigger] a.delivered[j]).0))", ["C20"]),
]

STEP = (
    "proof {\n"
    "    let e = rs[idx0];\n"
    "    assert(rs.subrange(0, idx0 + 1) =~= rs.subrange(0, idx0).push(e));\n"
    "    lemma_msgs_push(rs.subrange(0, idx0), e);\n"
    "    match e {\n"
    "        IpcSelectionResult::MessageReceived(id, m) => { lemma_fwd_push(msgs(rs.subrange(0, idx0)), (id, m.mid), so0, wk);\n"
    "            assert(fwd(d0, so0, wk) + fwd(msgs(rs.subrange(0, idx0)), so0, wk).push((so0[id], m.mid)) =~= (fwd(d0, so0, wk) + fwd(msgs(rs.subrange(0, idx0)), so0, wk)).push((so0[id], m.mid))); },\n"
    "        IpcSelectionResult::ChannelClosed(id) => {},\n"
    "    }\n"
    "}")

thread = BlockFn(F, r"thread::spawn\(move \|\| \{", "routing_thread",
    sig="pub fn routing_thread(recv0: UnboundedReceiver<Route>, wakee: IpcReceiver<()>, Tracked(a): Tracked<&mut A>)",
    requires=[
        Clause("asynch.thread/requires.fresh_world",
               "old(a).live == Set::<u64>::empty() && old(a).issued == Set::<u64>::empty() && old(a).delivered == Seq::<(u64, int)>::empty()\n"
               "&& old(a).forwarded == Seq::<(int, int)>::empty() && old(a).stream_of == Map::<u64, int>::empty()"),
    ],
    ensures=[
        Clause("asynch.thread/ensures.forwarded_exactly_the_delivered_messages",
               "final(a).forwarded == fwd(final(a).delivered, final(a).stream_of, final(a).wakeup)", ["C20"]),
        Clause("asynch.thread/ensures.touches_nothing_of_the_callers", "final(a).ev == old(a).ev && final(a).fresh == old(a).fresh && final(a).polls == old(a).polls"),
    ],
    loops={
        0: Loop(invariants=OUTER, desugar_while_let=True),
        1: Loop(invariants=INNER, iter_name="it"),
        2: Loop(invariants=DRAIN, desugar_while_let=True, optional=True),
    },
    hints=[
        Hint("body:start", "let mut recv = recv0;\nlet ghost a0 = *a;"),
        Hint("loop:0:before", "let ghost wk = a.wakeup;\nproof { assert(a.delivered =~= Seq::<(u64, int)>::empty()); }"),
        Hint("loop:0:head", "let ghost d0 = a.delivered;\nlet ghost so0 = a.stream_of;\nlet ghost a0i = a.issued;\nlet ghost live0 = a.live;"),
        Hint("loop:1:before",
             "let ghost rs = selections@;\n"
             "proof {\n"
             "    assert(rs.subrange(0, 0) =~= Seq::<IpcSelectionResult>::empty());\n"
             "    assert(msgs(rs.subrange(0, 0)) =~= Seq::<(u64, int)>::empty());\n"
             "    assert(fwd(d0, so0, wk) + Seq::<(int, int)>::empty() =~= fwd(d0, so0, wk));\n"
             "    assert forall|id: u64| #[trigger] senders@.contains_key(id) implies (a.live.contains(id)\n"
             "        || exists|j: int| 0 <= j < rs.len() && (#[trigger] rs[j]) is ChannelClosed && ev_id(rs[j]) == id) by {\n"
             "        if !a.live.contains(id) { assert(is_closed_in(rs, id)); }\n"
             "    }\n"
             "    assert forall|j: int| 0 <= j < rs.len() && (#[trigger] rs[j]) is ChannelClosed implies !a.live.contains(ev_id(rs[j])) by {\n"
             "        assert(is_closed_in(rs, ev_id(rs[j])));\n"
             "    }\n"
             "}", "asynch.thread/loop1.invariant.no_sender_outlives_its_channel"),
        Hint("loop:1:start", "let ghost idx0 = it.index() as int;\nlet ghost h0 = senders@;\nlet ghost ab = *a;\n" + STEP,
             "asynch.thread/loop1.invariant.forwarded_exactly_once_in_order"),
        Hint("loop:1:end",
             "proof {\n"
             "    assert forall|id: u64| #[trigger] senders@.contains_key(id) implies (a.live.contains(id)\n"
             "        || exists|j: int| idx0 + 1 <= j < rs.len() && (#[trigger] rs[j]) is ChannelClosed && ev_id(rs[j]) == id) by {\n"
             "        if h0.contains_key(id) && !ab.live.contains(id) {\n"
             "            let j = choose|j: int| idx0 <= j < rs.len() && (#[trigger] rs[j]) is ChannelClosed && ev_id(rs[j]) == id;\n"
             "            assert(j != idx0);\n"
             "        }\n"
             "    }\n"
             "}", "asynch.thread/loop1.invariant.no_sender_outlives_its_channel"),
        Hint("loop:1:after",
             "proof {\n"
             "    assert(rs.subrange(0, rs.len() as int) =~= rs);\n"
             "    lemma_fwd_add(d0, msgs(rs), so0, wk);\n"
             "    lemma_msgs_ids(rs, live0);\n"
             "    assert forall|j: int| 0 <= j < a.delivered.len() implies a.issued.contains((#[trigger] a.delivered[j]).0) by {\n"
             "        if j >= d0.len() { assert(a.delivered[j] == msgs(rs)[j - d0.len()]); } else { assert(a.delivered[j] == d0[j]); }\n"
             "    }\n"
             "}\n"
             "let ghost d1 = a.delivered;\nlet ghost f1 = a.forwarded;", "asynch.thread/loop0.invariant.forwarded_exactly_the_delivered_messages"),
        Hint("loop:2:head", "let ghost sb = a.stream_of;\nlet ghost ib = a.issued;", optional=True),
        Hint("loop:2:end",
             "proof {\n"
             "    if a.stream_of != sb {\n"
             "        let id = choose|id: u64| !ib.contains(id) && a.stream_of == sb.insert(id, a.stream_of[id]);\n"
             "        lemma_fwd_frame(a.delivered, sb, id, a.stream_of[id], wk);\n"
             "    }\n"
             "}", "asynch.thread/loop2.invariant.forwarded_exactly_the_delivered_messages", optional=True),
        Hint("loop:0:end", "assert(a.pending.len() == 0);", "asynch.thread/every_queued_route_taken_before_the_next_select"),
    ],
    rules=[
        AppendArg("B60", r"IpcReceiverSet::new\(", A, "receiver set stub over the ghost world", min_count=1),
        AppendArg("B61", r"receivers\.(?:add|select|add_opaque)\(", A, "receiver set stub", min_count=3),
        AppendArg("B62", r"\.unbounded_send\(", A, "futures mpsc stub: logs what was forwarded to which stream", min_count=1),
        AppendArg("B63", r"recv\.(?:is_terminated|try_next)\(", A, "futures mpsc stub: the queue of routes handed over by to_stream", min_count=1),
        Rule("D24", r"(\w+)\.drain\(\.\.\)", r"take_vec(&mut \1).into_iter()", "`v.drain(..)` consumed to the end == all elements in order, vector left empty"),
    ],
    attrs="#[verifier::loop_isolation(false)]\n    #[verifier::allow_complex_invariants]\n    #[verifier::exec_allows_no_decreases_clause]",
    safety_props=["C20"])

to_stream = Fn(F, ["impl<T> IpcReceiver<T> where T: for<'de> Deserialize<'de> + Serialize,", "to_stream"], ret="r", extra_params="router: &Router, " + TA,
    ensures=[
        Clause("asynch.to_stream/ensures.route_queued_then_thread_woken",
               "final(a).ev == old(a).ev.push(Ev::Route(self.rid, r.0.chan)).push(Ev::Wake)\n"
               "&& final(a).pending == old(a).pending.push((self.rid, r.0.chan))", ["C20"]),
        Clause("asynch.to_stream/ensures.stream_reads_the_channel_it_queued", "r.0.chan == old(a).fresh && final(a).fresh == old(a).fresh + 1", ["C20"]),
        Clause("asynch.to_stream/ensures.nothing_else_touched",
               "final(a).forwarded == old(a).forwarded && final(a).delivered == old(a).delivered && final(a).polls == old(a).polls && final(a).stream_of == old(a).stream_of"),
    ],
    rules=[
        Rule("B64", r"futures::channel::mpsc::unbounded\(\)", "mpsc_unbounded(%s)" % A, "futures mpsc::unbounded stub: a fresh channel", min_count=1),
        Rule("D25", r"\bROUTER\.", "router.", "the lazy_static singleton is passed in by reference"),
        AppendArg("B62", r"\.unbounded_send\(", A, "futures mpsc stub", min_count=1),
        AppendArg("B65", r"waker\.send\(", A, "wake-up IpcSender<()> stub: logs the wake-up"),
    ],
    safety_props=["C20"])

poll_next = BlockFn(F, r"fn poll_next\(mut self: Pin<&mut Self>, ctx: &mut Context\) -> Poll<Option<Self::Item>> \{", "poll_next",
    scope=["impl<T> IpcStream<T>"],
    sig="pub fn poll_next(this: &mut IpcStream<T>, ctx: &mut Context, Tracked(a): Tracked<&mut A>) -> (r: Poll<Option<Decoded<T>>>)",
    ensures=[
        Clause("asynch.poll_next/ensures.yields_what_the_forwarding_channel_yields",
               "final(a).polls == old(a).polls.push((old(this).0.chan, old(ctx).task, stream_view(r))) && final(this).0.chan == old(this).0.chan", ["C20"]),
        Clause("asynch.poll_next/ensures.nothing_else_touched",
               "final(a).forwarded == old(a).forwarded && final(a).delivered == old(a).delivered && final(a).pending == old(a).pending && final(a).ev == old(a).ev"),
    ],
    rules=[
        Rule("D26", r"Pin::new\(&mut self\.0\)", "(&mut this.0)", "Pin<&mut Self> of an Unpin type is a plain exclusive borrow", min_count=1),
        AppendArg("B66", r"\.poll_next\(", A, "futures Stream::poll_next of the forwarding channel (stub)", min_count=1),
        Rule("D31", r"\.map\(Ok\)", ".map(|v| -> (x: Result<_, _>) ensures x == Ok::<_, BincodeError>(v) { Ok(v) })", "eta-expansion of a datatype constructor used as a function value"),
        Rule("D31", r"\.map\(Some\)", ".map(|v| -> (x: Option<_>) ensures x == Some(v) { Some(v) })", "eta-expansion of a datatype constructor used as a function value"),
    ],
    safety_props=["C20"])

UNIT = Unit(
    name="u11_async",
    prelude=["units/common.rs", "units/u11_async.rs"],
    groups=[("", [thread]), ("impl<T> IpcReceiver<T>", [to_stream]), ("impl<T> IpcStream<T>", [poll_next])],
    props=["C20"],
    prelude_clauses={
        "asynch.add_opaque/requires.route_was_taken_from_the_queue": ["C20"],
        "asynch.thread/every_queued_route_taken_before_the_next_select": ["C20"],
    },
    kernel_clauses=[
        "IpcReceiverSet (property C06 / unit U5): ids reported are members, none after ChannelClosed(id), ids never reused",
        "futures::channel::mpsc unbounded channels are FIFO, lose nothing, wake the registered task, and end the stream when every sender is dropped",
        "registering the wake-up receiver with epoll succeeds (the code ignores the result of `receivers.add(wakee)`); the wake-up mutex is never poisoned; the routing thread keeps the route queue's receiving end for the life of the process",
        "the routing thread has no decreases clause: it is a service loop; termination is not claimed",
        "thread identity / scheduling: to_stream and the routing thread are verified separately against the queue `pending`; that a wake-up sent after the route was queued causes a later select to return is the receiver set's contract (C06)",
    ],
)
