"""U6 - src/router.rs: Router::run (dispatch + stop).  Verus."""
from vf.gen import Unit, Fn, Clause, Hint, Rule, Loop, AppendArg

F = "src/router.rs"
W = "Tracked(&mut *w)"

RUN_RULES = [
    Rule("B8", r"self\.ipc_receiver_set\.select\(\)", "self.ipc_receiver_set.select(%s)" % W, "receiver set stub over the ghost world", min_count=1),
    AppendArg("B9", r"self\.msg_receiver\.(?:recv|try_recv|recv_timeout)\(", W, "crossbeam receiver stub", min_count=1),
    Rule("B10", r"self\.ipc_receiver_set\.add_opaque\(receiver\)", "self.ipc_receiver_set.add_opaque(receiver, %s)" % W, "receiver set stub", min_count=1),
    Rule("B11", r"sender\s*\.send\(\(\)\)", "sender.send((), %s, Ghost(self.handlers@.len()))" % W,
         "acknowledgement send: the stub records how many callbacks are alive at that instant", min_count=1),
    Rule("D5", r"self\.handlers\.get_mut\(&id\)\.unwrap\(\)\(message\)", "router_invoke(&mut self.handlers, id, message, %s)" % W,
         "call of a Box<dyn FnMut>: stub that requires the entry to exist and logs the invocation", min_count=1),
]

OUTER = [
    Clause("router.run/loop0.invariant.not_stopped", "!w.acked", ["C17"]),
    Clause("router.run/loop0.invariant.ids", "self.msg_wakeup_id == wk && w.wakeup == wk && w.issued.contains(wk) && w.live.subset_of(w.issued) && w.live.contains(wk)"),
    Clause("router.run/loop0.invariant.every_live_route_has_its_handler",
           "forall|id: u64| w.live.contains(id) && id != wk ==> #[trigger] self.handlers@.contains_key(id)", ["C07", "C17"]),
    Clause("router.run/loop0.invariant.no_handler_outlives_its_channel",
           "forall|id: u64| #[trigger] self.handlers@.contains_key(id) ==> id != wk && w.live.contains(id)", ["C07"]),
    Clause("router.run/loop0.invariant.dispatched_exactly_the_delivered_messages",
           "w.calls == routed(w.delivered, wk)", ["C07"]),
    Clause("router.run/loop0.invariant.every_wakeup_matched_by_one_message",
           "w.credit == 0", ["C07", "C17"]),
]

INNER = [
    Clause("router.run/loop1.invariant.batch", "it.seq() == rs && batch_ok(rs, live0) && live0.subset_of(w.issued) && 0 <= it.index() <= rs.len()"),
    Clause("router.run/loop1.invariant.not_stopped", "!w.acked", ["C17"]),
    Clause("router.run/loop1.invariant.ids", "self.msg_wakeup_id == wk && w.wakeup == wk && w.issued.contains(wk) && w.live.subset_of(w.issued)\n"
           "&& (w.live.contains(wk) || exists|j: int| it.index() <= j < rs.len() && (#[trigger] rs[j]) is ChannelClosed && ev_id(rs[j]) == wk)"),
    Clause("router.run/loop1.invariant.pending_events_have_handlers",
           "forall|j: int| it.index() <= j < rs.len() && ev_id(#[trigger] rs[j]) != wk ==> self.handlers@.contains_key(ev_id(rs[j]))", ["C07", "C17"]),
    Clause("router.run/loop1.invariant.every_live_route_has_its_handler",
           "forall|id: u64| w.live.contains(id) && id != wk ==> #[trigger] self.handlers@.contains_key(id)", ["C07", "C17"]),
    Clause("router.run/loop1.invariant.closed_routes_are_not_live",
           "forall|j: int| 0 <= j < rs.len() && (#[trigger] rs[j]) is ChannelClosed ==> !w.live.contains(ev_id(rs[j]))"),
    Clause("router.run/loop1.invariant.no_handler_outlives_its_channel",
           "forall|id: u64| #[trigger] self.handlers@.contains_key(id) ==> id != wk && (w.live.contains(id)\n"
           "    || exists|j: int| it.index() <= j < rs.len() && (#[trigger] rs[j]) is ChannelClosed && ev_id(rs[j]) == id)", ["C07"]),
    Clause("router.run/loop1.invariant.dispatched_exactly_once_in_order",
           "w.delivered == d0 + msgs(rs) && w.calls == routed(d0, wk) + routed(msgs(rs.subrange(0, it.index() as int)), wk)", ["C07"]),
    Clause("router.run/loop1.invariant.wakeups_paired",
           "w.credit + wakeups(rs.subrange(0, it.index() as int), wk) == wakeups(rs, wk)", ["C07", "C17"]),
]

STEP = (
    "proof {\n"
    "    let e = rs[idx0];\n"
    "    assert(rs.subrange(0, idx0 + 1) =~= rs.subrange(0, idx0).push(e));\n"
    "    lemma_msgs_push(rs.subrange(0, idx0), e);\n"
    "    lemma_wakeups_push(rs.subrange(0, idx0), e, wk);\n"
    "    lemma_wakeups_le(rs, idx0 + 1, wk);\n"
    "    match e {\n"
    "        IpcSelectionResult::MessageReceived(id, m) => { lemma_routed_push(msgs(rs.subrange(0, idx0)), (id, m.mid), wk);\n"
    "            assert(routed(d0, wk) + routed(msgs(rs.subrange(0, idx0)), wk).push((id, m.mid)) =~= (routed(d0, wk) + routed(msgs(rs.subrange(0, idx0)), wk)).push((id, m.mid))); },\n"
    "        IpcSelectionResult::ChannelClosed(id) => {},\n"
    "    }\n"
    "}")

run = Fn(F, ["impl Router", "run"], extra_params="Tracked(w): Tracked<&mut W>",
    requires=[
        Clause("router.run/requires.world",
               "old(self).msg_wakeup_id == old(w).wakeup && !old(w).acked && old(w).issued.contains(old(w).wakeup) && old(w).live.subset_of(old(w).issued) && old(w).live.contains(old(w).wakeup)\n"
               "&& (forall|id: u64| old(w).live.contains(id) && id != old(w).wakeup ==> #[trigger] old(self).handlers@.contains_key(id))\n"
               "&& (forall|id: u64| #[trigger] old(self).handlers@.contains_key(id) ==> id != old(w).wakeup && old(w).live.contains(id))\n"
               "&& old(w).calls == routed(old(w).delivered, old(w).wakeup) && old(w).credit == 0"),
    ],
    ensures=[
        Clause("router.run/ensures.callbacks_dropped_before_ack", "final(w).acked ==> final(w).handlers_at_ack == 0", ["C17"]),
        Clause("router.run/ensures.stopped_by_proxy_drop_or_shutdown_leaves_no_callback",
               "final(self).handlers@.len() == 0 || (!final(w).acked && final(w).live.contains(final(w).wakeup))", ["C17"]),
        Clause("router.run/ensures.nothing_dispatched_that_was_not_delivered",
               "exists|n: int| 0 <= n <= final(w).delivered.len() && final(w).calls == routed(final(w).delivered.subrange(0, n), final(w).wakeup)", ["C07"]),
    ],
    loops={
        0: Loop(invariants=OUTER, desugar_while_let=True),     # D27 only if the loop is (or becomes) a `while let`
        1: Loop(invariants=INNER, iter_name="it"),
    },
    hints=[
        Hint("body:start", "let ghost wk = w.wakeup;\nproof { assert(w.delivered.subrange(0, w.delivered.len() as int) =~= w.delivered); }"),
        Hint("loop:0:head", "let ghost d0 = w.delivered;\nlet ghost live0 = w.live;\nlet ghost c0 = w.credit;"),
        Hint("loop:1:before",
             "let ghost rs = results@;\n"
             "proof {\n"
             "    assert(rs.subrange(0, 0) =~= Seq::<IpcSelectionResult>::empty());\n"
             "    assert(msgs(rs.subrange(0, 0)) =~= Seq::<(u64, int)>::empty());\n"
             "    assert(routed(msgs(rs.subrange(0, 0)), wk) =~= Seq::<(u64, int)>::empty());\n"
             "    assert(routed(d0, wk) + Seq::<(u64, int)>::empty() =~= routed(d0, wk));\n"
             "    assert forall|id: u64| #[trigger] self.handlers@.contains_key(id) implies id != wk && (w.live.contains(id)\n"
             "        || exists|j: int| 0 <= j < rs.len() && (#[trigger] rs[j]) is ChannelClosed && ev_id(rs[j]) == id) by {\n"
             "        if !w.live.contains(id) { assert(is_closed_in(rs, id)); }\n"
             "    }\n"
             "    assert forall|j: int| 0 <= j < rs.len() && (#[trigger] rs[j]) is ChannelClosed implies !w.live.contains(ev_id(rs[j])) by {\n"
             "        assert(is_closed_in(rs, ev_id(rs[j])));\n"
             "    }\n"
             "}", "router.run/loop1.invariant.no_handler_outlives_its_channel"),
        Hint("loop:1:start", "let ghost idx0 = it.index() as int;\nlet ghost h0 = self.handlers@;\nlet ghost wb = *w;\n" + STEP,
             "router.run/loop1.invariant.dispatched_exactly_once_in_order"),
        Hint("loop:1:end",
             "proof {\n"
             "    assert forall|id: u64| #[trigger] self.handlers@.contains_key(id) implies id != wk && (w.live.contains(id)\n"
             "        || exists|j: int| idx0 + 1 <= j < rs.len() && (#[trigger] rs[j]) is ChannelClosed && ev_id(rs[j]) == id) by {\n"
             "        if h0.contains_key(id) && !wb.live.contains(id) {\n"
             "            let j = choose|j: int| idx0 <= j < rs.len() && (#[trigger] rs[j]) is ChannelClosed && ev_id(rs[j]) == id;\n"
             "            assert(j != idx0);\n"
             "        }\n"
             "    }\n"
             "    if !w.live.contains(wk) {\n"
             "        let j = choose|j: int| idx0 <= j < rs.len() && (#[trigger] rs[j]) is ChannelClosed && ev_id(rs[j]) == wk;\n"
             "        assert(j != idx0);\n"
             "    }\n"
             "}", "router.run/loop1.invariant.no_handler_outlives_its_channel"),
        Hint("loop:0:after", "proof { assert(w.delivered.subrange(0, w.delivered.len() as int) =~= w.delivered); }",
             "router.run/ensures.nothing_dispatched_that_was_not_delivered"),
        Hint("loop:1:after",
             "proof {\n"
             "    assert(rs.subrange(0, rs.len() as int) =~= rs);\n"
             "    lemma_routed_add(d0, msgs(rs), wk);\n"
             "}", "router.run/loop0.invariant.dispatched_exactly_the_delivered_messages"),
        Hint("before:return;",
             "proof {\n"
             "    lemma_routed_add(d0, msgs(rs.subrange(0, idx0)), wk);\n"
             "    lemma_msgs_prefix(rs, idx0);\n"
             "    assert((d0 + msgs(rs)).subrange(0, (d0.len() + msgs(rs.subrange(0, idx0)).len()) as int) =~= d0 + msgs(rs.subrange(0, idx0)));\n"
             "}", "router.run/ensures.nothing_dispatched_that_was_not_delivered", all=True, optional=True),
    ],
    rules=RUN_RULES,
    attrs="#[verifier::loop_isolation(false)]\n    #[verifier::exec_allows_no_decreases_clause]",
    safety_props=["C17", "C07"])

router_new = Fn(F, ["impl Router", "new"], ret="r", extra_params="Tracked(w): Tracked<&mut W>",
    requires=[Clause("router.new/requires.fresh_world", "fresh_world(*old(w))")],
    ensures=[
        Clause("router.new/ensures.establishes_the_precondition_of_run",
               "r.msg_wakeup_id == final(w).wakeup && !final(w).acked && final(w).issued.contains(final(w).wakeup) && final(w).live.subset_of(final(w).issued) && final(w).live.contains(final(w).wakeup)\n"
               "&& (forall|id: u64| final(w).live.contains(id) && id != final(w).wakeup ==> #[trigger] r.handlers@.contains_key(id))\n"
               "&& (forall|id: u64| #[trigger] r.handlers@.contains_key(id) ==> id != final(w).wakeup && final(w).live.contains(id))\n"
               "&& final(w).calls == routed(final(w).delivered, final(w).wakeup) && final(w).credit == 0", ["C07", "C17"]),
    ],
    hints=[Hint("body:start", "proof { assert(routed(Seq::<(u64, int)>::empty(), 0u64) =~= Seq::<(u64, int)>::empty()); }")],
    rules=[AppendArg("B14", r"IpcReceiverSet::new\(", W, "receiver set stub", min_count=1),
           AppendArg("B13", r"ipc_receiver_set\.add\(", W, "receiver set stub: registers the wake-up channel", min_count=1),
           Rule("D47", r"\bReceiver<RouterMsg>", "MsgReceiver", "crossbeam Receiver<RouterMsg> is the non-generic stand-in MsgReceiver")],
    safety_props=["C17", "C07"])

UNIT = Unit(
    name="u6_router",
    prelude=["units/common.rs", "units/u6_router.rs"],
    groups=[("impl Router", [router_new, run])],
    props=["C07", "C17"],
    prelude_clauses={
        "router.select/requires.not_after_shutdown_ack": ["C17"],
        "router.add_opaque/requires.not_after_shutdown_ack": ["C17"],
        "router.invoke/requires.handler_registered": ["C07", "C17"],
        "router.invoke/requires.not_after_shutdown_ack": ["C17"],
    },
    kernel_clauses=[
        "IpcReceiverSet (property C06 / unit U5): ids reported are members, none after ChannelClosed(id), ids never reused",
        "every wake-up the set reports is matched by one RouterMsg on the crossbeam channel (proxy sends one of each under its mutex)",
        "the proxy is blocked on the acknowledgement channel while the router sends the acknowledgement",
        "Router::run has no decreases clause: it is a service loop; termination is not claimed",
    ],
)
