"""U8 - shared memory regions of the unix transport.  Verus."""
from vf.gen import Unit, Fn, Clause, Hint, Rule, Loop, AppendArg

F = "src/platform/unix/mod.rs"
M = "Tracked(&mut *m)"
R_MAP = AppendArg("B13", r"\.map_file\(", M, "mmap stub over the ghost memory model")
R_NEW = AppendArg("B14", r"BackingStore::new\(", M, "shm_open/ftruncate stub")
R_COPY = Rule("E5", r"ptr::copy_nonoverlapping\(bytes\.as_ptr\(\), address, ([^;]*)\);", r"copy_into_mapping(bytes, address, \1, %s);" % M,
              "raw copy into the mapping -> stub (count kept)")
R_FILL = Rule("E4", r"for element in slice::from_raw_parts_mut\((\w+), (\w+)\) \{\s*\*element = (\w+);\s*\}", r"fill_region(\1, \2, \3, %s);" % M,
              "fill loop over a raw mutable slice -> stub stating exactly that (pointer non-null and inside the mapping stay obligations)")
R_FILL2 = Rule("E4b", r"slice::from_raw_parts_mut\((\w+), (\w+)\)\.fill\((\w+)\)", r"fill_region(\1, \2, \3, %s)" % M,
               "`[u8]::fill` over a raw mutable slice -> the same stub as the fill loop")
R_SLICE = Rule("E6", r"slice::from_raw_parts\(self\.ptr, self\.length\)", "raw_slice(self.ptr, self.length, Tracked(&*m))", "std::slice::from_raw_parts -> stub with std's safety contract")
R_DUP = AppendArg("B15", r"libc::dup\(", M, "dup stub", rename="k_dup")
R_FDUP = AppendArg("B15b", r"libc::fcntl\(", M, "fcntl(F_DUPFD_CLOEXEC) stub", rename="k_fcntl_dup")
R_MUNMAP = Rule("B16", r"libc::munmap\(self\.ptr as \*mut c_void, ([^()]*)\)", r"k_munmap(self.ptr, \1, %s)" % M, "munmap stub")

TM = "Tracked(m): Tracked<&mut M>"

bs_from_fd = Fn(F, ["impl BackingStore", "from_fd"], ret="r", ensures=[Clause("unix.BackingStore.from_fd/ensures.wraps", "r.fd == fd", ["C05"])], safety_props=["C18"])
bs_fd = Fn(F, ["impl BackingStore", "fd"], ret="r", ensures=[Clause("unix.BackingStore.fd/ensures.field", "r == self.fd", ["C05"])], safety_props=["C18"])

from_raw_parts = Fn(F, ["impl OsIpcSharedMemory", "from_raw_parts"], ret="r",
    ensures=[Clause("unix.shm.from_raw_parts/ensures.fields", "r.ptr == ptr && r.length == length && r.store == store", ["C05"])], safety_props=["C18"])

from_fd = Fn(F, ["impl OsIpcSharedMemory", "from_fd"], ret="r", extra_params=TM,
    requires=[Clause("unix.shm.from_fd/requires.open_descriptor", "old(m).fdfile.dom().contains(fd) && old(m).content.dom().contains(old(m).fdfile[fd])")],
    ensures=[Clause("unix.shm.from_fd/ensures.whole_file_mapped",
                    "r.wf(*final(m)) && r.store.fd == fd && r.bytes(*final(m)) == old(m).content[old(m).fdfile[fd]]\n"
                    "&& final(m).content == old(m).content && final(m).fdfile == old(m).fdfile", ["C05", "C18"])],
    hints=[Hint("before:OsIpcSharedMemory::from_raw_parts\\(", "proof { let c = old(m).content[old(m).fdfile[fd]]; assert(c.subrange(0, c.len() as int) =~= c); }", "unix.shm.from_fd/ensures.whole_file_mapped")],
    rules=[R_MAP], safety_props=["C18"])

from_bytes = Fn(F, ["impl OsIpcSharedMemory", "from_bytes"], ret="r", extra_params=TM,
    ensures=[Clause("unix.shm.from_bytes/ensures.reads_back_the_bytes",
                    "r.wf(*final(m)) && r.length == bytes@.len() && r.bytes(*final(m)) == bytes@ && !old(m).fdfile.dom().contains(r.store.fd)", ["C05", "C18"])],
    hints=[Hint("before:OsIpcSharedMemory::from_raw_parts\\(",
                "proof {\n"
                "    let z = zeros(bytes@.len() as nat);\n"
                "    assert(z.subrange(bytes@.len() as int, z.len() as int) =~= Seq::<u8>::empty());\n"
                "    assert((bytes@ + Seq::<u8>::empty()).subrange(0, bytes@.len() as int) =~= bytes@);\n"
                "    assert(z.subrange(0, 0) =~= bytes@.subrange(0, 0));\n"
                "}", "unix.shm.from_bytes/ensures.reads_back_the_bytes")],
    rules=[R_MAP, R_NEW, R_COPY], safety_props=["C18"])

from_byte = Fn(F, ["impl OsIpcSharedMemory", "from_byte"], ret="r", extra_params=TM,
    ensures=[Clause("unix.shm.from_byte/ensures.reads_back_the_fill",
                    "r.wf(*final(m)) && r.length == length && r.bytes(*final(m)) == Seq::new(length as nat, |i: int| byte)", ["C05", "C18"])],
    hints=[Hint("before:OsIpcSharedMemory::from_raw_parts\\(",
                "proof {\n"
                "    let z = zeros(length as nat);\n"
                "    let fill = Seq::new(length as nat, |i: int| byte);\n"
                "    assert(z.subrange(length as int, z.len() as int) =~= Seq::<u8>::empty());\n"
                "    assert((fill + Seq::<u8>::empty()).subrange(0, length as int) =~= fill);\n"
                "    assert(z.subrange(0, 0) =~= fill.subrange(0, 0));\n"
                "}", "unix.shm.from_byte/ensures.reads_back_the_fill")],
    rules=[R_MAP, R_NEW, R_FILL, R_FILL2], safety_props=["C18"])

clone = Fn(F, ["impl Clone for OsIpcSharedMemory", "clone"], ret="r", extra_params=TM,
    requires=[Clause("unix.shm.clone/requires.wf", "self.wf(*old(m))")],
    ensures=[Clause("unix.shm.clone/ensures.same_bytes_own_mapping",
                    "r.wf(*final(m)) && self.wf(*final(m)) && r.length == self.length && r.bytes(*final(m)) == self.bytes(*old(m))\n"
                    "&& r.store.fd != self.store.fd && (self.length > 0 ==> r.ptr@.addr != self.ptr@.addr) && final(m).content == old(m).content", ["C05", "C18"])],
    rules=[R_MAP, R_DUP, R_FDUP], safety_props=["C18"])

deref = Fn(F, ["impl Deref for OsIpcSharedMemory", "deref"], ret="r", extra_params="Tracked(m): Tracked<&M>",
    requires=[Clause("unix.shm.deref/requires.wf", "self.wf(*m)")],
    ensures=[Clause("unix.shm.deref/ensures.bytes", "r@ == self.bytes(*m)", ["C05", "C18"])],
    hints=[Hint("body:start", "proof { assert(m.content[self.file(*m)].subrange(0, 0) =~= Seq::<u8>::empty()); }", "unix.shm.deref/ensures.bytes")],
    rules=[R_SLICE], safety_props=["C18"])

drop = Fn(F, ["impl Drop for OsIpcSharedMemory", "drop"], extra_params=TM,
    requires=[Clause("unix.shm.drop/requires.wf", "old(self).wf(*old(m))")],
    ensures=[Clause("unix.shm.drop/ensures.unmapped_exactly_its_mapping",
                    "final(m).maps == (if old(self).length > 0 { old(m).maps.remove(old(self).ptr@.addr) } else { old(m).maps })\n"
                    "&& final(m).content == old(m).content", ["C11", "C18", "C05"])],
    rules=[R_MUNMAP], safety_props=["C18"])

FI = "src/ipc.rs"
ipc_empty = Fn(FI, ["impl IpcSharedMemory", "empty"], ret="r",
    ensures=[Clause("ipc.IpcSharedMemory.empty/ensures.none", "r.os_shared_memory is None", ["C05"])], safety_props=["C18"])
ipc_from_bytes = Fn(FI, ["impl IpcSharedMemory", "from_bytes"], ret="r", extra_params=TM,
    ensures=[Clause("ipc.IpcSharedMemory.from_bytes/ensures.reads_back_the_bytes", "r.wf(*final(m)) && r.bytes(*final(m)) == bytes@", ["C05", "C18"])],
    hints=[Hint("body:start", "proof { assert(bytes@.len() == 0 ==> bytes@ =~= Seq::<u8>::empty()); }", "ipc.IpcSharedMemory.from_bytes/ensures.reads_back_the_bytes")],
    rules=[AppendArg("B17", r"OsIpcSharedMemory::from_bytes\(", M, "ghost memory model threaded")], safety_props=["C18"])
ipc_from_byte = Fn(FI, ["impl IpcSharedMemory", "from_byte"], ret="r", extra_params=TM,
    ensures=[Clause("ipc.IpcSharedMemory.from_byte/ensures.reads_back_the_fill", "r.wf(*final(m)) && r.bytes(*final(m)) == Seq::new(length as nat, |i: int| byte)", ["C05", "C18"])],
    hints=[Hint("body:start", "proof { assert(length == 0 ==> Seq::new(length as nat, |i: int| byte) =~= Seq::<u8>::empty()); }", "ipc.IpcSharedMemory.from_byte/ensures.reads_back_the_fill")],
    rules=[AppendArg("B17", r"OsIpcSharedMemory::from_byte\(", M, "ghost memory model threaded")], safety_props=["C18"])
ipc_deref = Fn(FI, ["impl Deref for IpcSharedMemory", "deref"], ret="r", extra_params="Tracked(m): Tracked<&M>",
    requires=[Clause("ipc.IpcSharedMemory.deref/requires.wf", "self.wf(*m)")],
    ensures=[Clause("ipc.IpcSharedMemory.deref/ensures.bytes", "r@ == self.bytes(*m)", ["C05", "C18"])],
    rules=[Rule("D14", r"\{\s*os_shared_memory\s*\}", "{ os_shared_memory.deref(Tracked(m)) }", "Deref coercion &OsIpcSharedMemory -> &[u8] made explicit", min_count=1)],
    safety_props=["C18"])

UNIT = Unit(
    name="u8_shm",
    prelude=["units/common.rs", "units/u8_shm.rs"],
    groups=[("impl BackingStore", [bs_from_fd, bs_fd]),
            ("impl OsIpcSharedMemory", [from_raw_parts, from_fd, from_byte, from_bytes, clone, deref, drop]),
            ("impl IpcSharedMemory", [ipc_empty, ipc_from_bytes, ipc_from_byte, ipc_deref])],
    props=["C05", "C18", "C11"],
    prelude_clauses={
        "unix.map_file/requires.mapping_not_longer_than_file": ["C18", "C05"],
        "unix.copy_into_mapping/requires.write_inside_mapping": ["C18"],
        "std.from_raw_parts_mut/requires.non_null": ["C18"],
        "unix.fill_region/requires.write_inside_mapping": ["C18"],
        "std.from_raw_parts/requires.non_null": ["C18"],
        "unix.raw_slice/requires.read_inside_mapping": ["C18"],
        "unix.munmap/requires.exactly_the_mapping": ["C18", "C11"],
        "unix.shm.clone/requires.duplicate_is_close_on_exec": ["C11"],
    },
    kernel_clauses=[
        "shm_open/memfd_create + ftruncate(n): a fresh descriptor for a fresh file of n zero bytes; fstat reports that size",
        "mmap(MAP_SHARED) of a file object reads and writes that object's bytes; dup shares the object; munmap removes exactly one mapping",
        "map_file's asserts (mmap did not fail) hold",
    ],
)
