"""U2 - OsIpcSender::send (+ nested downsize), fragment arithmetic.  Verus, unbounded."""
from vf.gen import Unit, Fn, Clause, Hint, Rule, Loop, DROP, AppendArg

F = "src/platform/unix/mod.rs"
IMPL = "impl OsIpcSender"

# boundary / dialect rules shared by the functions of this unit
R_SYS = Rule("D2", r"\*SYSTEM_SENDBUF_SIZE", "system_sendbuf_size()", "lazy_static run constant")
R_FIRST = Rule("B1", r"\bsend_first_fragment\(", "send_first_fragment(Tracked(&mut *k), ", "ghost kernel threaded into the sendmsg stub")
R_FOLLOW = Rule("B2", r"\bsend_followup_fragment\(", "send_followup_fragment(Tracked(&mut *k), ", "ghost kernel threaded into the send stub")
R_CHANNEL = Rule("B3", r"\bchannel\(\)", "channel(Tracked(&mut *k))", "ghost kernel threaded into the socketpair stub")
R_DROP = Rule("B25", r"\bdrop\(dedicated_rx\.take\(\)\);", "drop_receiver(dedicated_rx.take(), Tracked(&mut *k));", "drop of the sender's copy of the dedicated receive end -> stub that updates the ghost set of held receive ends")
R_CELLGET = Rule("D8", r"\b([A-Za-z_][A-Za-z0-9_]*)\.fd\.get\(\)", r"\1.fd.get()", "Cell::get kept verbatim (spec: uninterpreted cell_val)")

fragment_size = Fn(F, [IMPL, "fragment_size"], ret="r",
    requires=[Clause("unix.fragment_size/requires.ge_reserved", "sendbuf_size >= RESERVED_SIZE")],
    ensures=[Clause("unix.fragment_size/ensures.spec", "r == spec_frag(sendbuf_size as nat)", ["C01", "C13", "C18"])],
    safety_props=["C18"])

first_fragment_size = Fn(F, [IMPL, "first_fragment_size"], ret="r",
    requires=[Clause("unix.first_fragment_size/requires.ge_40", "sendbuf_size >= 40")],
    ensures=[Clause("unix.first_fragment_size/ensures.spec", "r == spec_first(sendbuf_size as nat)", ["C01", "C13", "C18"])],
    hints=[Hint("body:start", "proof { lemma_masks(); }", "unix.first_fragment_size/ensures.spec")],
    safety_props=["C18"])

get_max_fragment_size = Fn(F, [IMPL, "get_max_fragment_size"], ret="r",
    requires=[Clause("unix.get_max_fragment_size/requires.sys", "40 <= sys_sendbuf() <= usize::MAX")],
    ensures=[Clause("unix.get_max_fragment_size/ensures.spec", "r == spec_first(sys_sendbuf())", ["C01", "C13", "C18"])],
    rules=[R_SYS], safety_props=["C18"])

downsize = Fn(F, [IMPL, "send", "downsize"], ret="r",
    requires=[Clause("unix.send.downsize/requires.sent_fits", "sent_size + 32 <= *old(sendbuf_size)")],
    ensures=[
        Clause("unix.send.downsize/ensures.ok_iff_gt_2000", "r is Ok <==> sent_size > 2000", ["C13", "C09"]),
        Clause("unix.send.downsize/ensures.shrinks", "r is Ok ==> 1000 <= *final(sendbuf_size) < sent_size && *final(sendbuf_size) <= *old(sendbuf_size) / 2", ["C13"]),
        Clause("unix.send.downsize/ensures.err_unchanged", "r is Err ==> *final(sendbuf_size) == *old(sendbuf_size)", ["C13"]),
    ],
    safety_props=["C18", "C13"])

chan_fd = Fn(F, ["impl OsIpcChannel", "fd"], ret="r",
    ensures=[Clause("unix.OsIpcChannel.fd/ensures.spec", "r == self.spec_fd()", ["C04"])], safety_props=["C18"])

INV_COMMON = [
    Clause("unix.send/loop2.invariant.sys", "48 <= sys_sendbuf() <= isize::MAX && data@.len() <= isize::MAX"),
    Clause("unix.send/loop2.invariant.sendbuf_range", "(1000 <= sendbuf_size || sendbuf_size == sys_sendbuf()) && sendbuf_size <= sys_sendbuf()", ["C13", "C18"]),
    Clause("unix.send/loop2.invariant.pos_le_len", "byte_position <= data.len()", ["C18", "C01"]),
    Clause("unix.send/loop2.invariant.fds", "fds@ == fds_in.push(ded) && fds@.len() <= MAX_FDS_IN_CMSG", ["C04", "C15", "C13", "C05", "C02", "C01"]),
    Clause("unix.send/loop2.invariant.kernel_frame",
           "k1.peer == k0.peer.insert(dedicated_tx.fd.0, ded) && k1.q == k0.q.insert(ded, Seq::empty()) && k1.sock.contains(ded)\n"
           "&& !k0.q.dom().contains(ded) && !k0.peer.dom().contains(dedicated_tx.fd.0)\n"
           "&& k0.peer.dom().contains(self.fd.0) && k0.q.dom().contains(mrx) && mrx == k0.peer[self.fd.0]\n"
           "&& k.peer == k1.peer && k.sock == k1.sock"),
    Clause("unix.send/loop2.invariant.log", "failures_recoverable(k0.log, k.log)", ["C09", "C13"]),
    Clause("unix.send/loop2.invariant.own_copy_of_dedicated_receiver_closed_after_first_fragment",
           "(byte_position > 0 ==> !k.own_rx.contains(ded)) && (dedicated_rx matches Some(x) ==> cell_val(&x.fd) == ded) && (byte_position == 0 ==> dedicated_rx is Some) && !k.consumed.contains(ded)", ["C09", "C11"]),
    Clause("unix.send/loop2.invariant.nothing_sent_yet",
           "byte_position == 0 ==> k.q == k1.q && spec_first(sendbuf_size as nat) < data.len()", ["C13", "C01", "C18"]),
    Clause("unix.send/loop2.invariant.sent_prefix",
           "byte_position > 0 ==> {\n"
           "    let mq = k.q[mrx];\n"
           "    &&& mq == k0.q[mrx].push(mq.last())\n"
           "    &&& mq.last().hdr == Some(data@.len())\n"
           "    &&& mq.last().fds == fds@\n"
           "    &&& 0 < mq.last().data.len() <= spec_first(sys_sendbuf())\n"
           "    &&& mq.last().data.len() < data.len()\n"
           "    &&& k.q == k0.q.insert(ded, k.q[ded]).insert(mrx, mq)\n"
           "    &&& followups_ok(k.q[ded])\n"
           "    &&& mq.last().data + flat(k.q[ded]) == data@.subrange(0, byte_position as int)\n"
           "}", ["C01", "C02", "C04", "C13"]),
]

send = Fn(F, [IMPL, "send"], ret="r", extra_params="Tracked(k): Tracked<&mut K>",
    requires=[
        Clause("unix.send/requires.sys", "48 <= sys_sendbuf() <= isize::MAX"),
        Clause("unix.send/requires.slice", "data@.len() <= isize::MAX"),
        Clause("unix.send/requires.kernel_wf", "old(k).peer.dom().contains(self.fd.0) && old(k).q.dom().contains(old(k).peer[self.fd.0])"),
    ],
    ensures=[
        Clause("unix.send/ensures.ok_exact_message_once",
               "r is Ok ==> send_ok_post(*old(k), *final(k), self.fd.0, data@, chan_fds(channels@) + region_fds(shared_memory_regions@))",
               ["C01", "C02", "C04", "C13", "C15"]),
        Clause("unix.send/ensures.err_at_most_one_packet",
               "r is Err ==> send_err_post(*old(k), *final(k), self.fd.0, data@)", ["C02", "C09", "C12", "C13"]),
        Clause("unix.send/ensures.failure_not_swallowed",
               "r is Ok ==> failures_recoverable(old(k).log, final(k).log)", ["C09", "C13"]),
        Clause("unix.send/ensures.too_many_attachments_refused",
               "channels@.len() + shared_memory_regions@.len() > MAX_FDS_IN_CMSG ==> r is Err && final(k).q == old(k).q", ["C15"]),
    ],
    loops={
        0: Loop(iter_name="it", invariants=[
            Clause("unix.send/loop0.invariant.fds", "fds@ == chan_fds(channels@).subrange(0, it.index()) && *k == k0", ["C04"])]),
        1: Loop(iter_name="it", invariants=[
            Clause("unix.send/loop1.invariant.fds", "fds@ == chan_fds(channels@) + region_fds(shared_memory_regions@).subrange(0, it.index()) && *k == k0", ["C04", "C05"])]),
        2: Loop(invariants=INV_COMMON, decreases="data.len() - byte_position, sendbuf_size"),
    },
    hints=[
        Hint("body:start", "let ghost k0 = *k;\nlet ghost mrx = k0.peer[self.fd.0];\nproof { lemma_first_mono_all(); }"),
        Hint("loop:1:after",
             "let ghost fds_in = fds@;\n"
             "proof {\n"
             "    assert(chan_fds(channels@).subrange(0, channels@.len() as int) == chan_fds(channels@));\n"
             "    assert(region_fds(shared_memory_regions@).subrange(0, shared_memory_regions@.len() as int) == region_fds(shared_memory_regions@));\n"
             "    assert(fds_in == chan_fds(channels@) + region_fds(shared_memory_regions@));\n"
             "    assert(fds@.subrange(0, fds@.len() as int) == fds@);\n"
             "}", "unix.send/ensures.ok_exact_message_once"),
        Hint("loop:2:before",
             "let ghost ded = fds@.last();\n"
             "let ghost k1 = *k;", "unix.send/loop2.invariant.kernel_frame"),
        Hint("loop:2:start",
             "let ghost kb = *k;\nlet ghost bp0 = byte_position;\nlet ghost sb0 = sendbuf_size;\n"
             "proof { lemma_first_mono_all(); assert(fds@.subrange(0, fds@.len() as int) == fds@); assert(mrx != ded); }"),
        Hint("loop:2:end",
             "proof {\n"
             "    let mq = k.q[mrx];\n"
             "    if bp0 == 0 {\n"
             "        assert(k.q[ded] =~= Seq::<Packet>::empty());\n"
             "        assert(flat(k.q[ded]) =~= Seq::<u8>::empty());\n"
             "        assert(mq.last().data =~= data@.subrange(0, byte_position as int));\n"
             "        assert(mq.last().data + flat(k.q[ded]) =~= data@.subrange(0, byte_position as int));\n"
             "    } else {\n"
             "        let oldq = k.q[ded].drop_last();\n"
             "        let p = k.q[ded].last();\n"
             "        assert(mrx != ded);\n"
             "        assert(k.q[ded] == kb.q[ded].push(p));\n"
             "        assert(oldq =~= kb.q[ded]);\n"
             "        assert(k.q[mrx] == kb.q[mrx]);\n"
             "        assert(k.q[ded] =~= oldq.push(p));\n"
             "        lemma_flat_push(oldq, p);\n"
             "        let a = mq.last().data;\n"
             "        assert(p.data =~= data@.subrange(bp0 as int, byte_position as int));\n"
             "        assert(a + (flat(oldq) + p.data) =~= (a + flat(oldq)) + p.data);\n"
             "        assert(data@.subrange(0, bp0 as int) + data@.subrange(bp0 as int, byte_position as int) =~= data@.subrange(0, byte_position as int));\n"
             "    }\n"
             "}", "unix.send/loop2.invariant.sent_prefix"),
        Hint("loop:2:after",
             "proof { assert(data@.subrange(0, data@.len() as int) == data@); }", "unix.send/ensures.ok_exact_message_once"),
    ],
    rules=[R_SYS, R_FIRST, R_FOLLOW, R_CHANNEL, R_DROP, AppendArg("B27", r"\.consume_fd\(", "Tracked(&mut *k)", "descriptor leaving its owning receiver is recorded")],
    nested={"send_first_fragment": DROP, "send_followup_fragment": DROP, "downsize": downsize},
    attrs="#[verifier::loop_isolation(false)]",
    safety_props=["C18"], termination_props=["C09", "C13"])

UNIT = Unit(
    name="u2_send",
    prelude=["units/common.rs", "units/unix_types.rs", "units/u2_send.rs"],
    groups=[("impl OsIpcChannel", [chan_fd]), (IMPL, [fragment_size, first_fragment_size, get_max_fragment_size, send])],
    props=["C01", "C02", "C04", "C05", "C09", "C12", "C13", "C15", "C18"],
    prelude_clauses={
        "unix.send_first_fragment/requires.fds_le_max": ["C15", "C18"],
        "unix.send_first_fragment/requires.fits_first_iovec": ["C13", "C01", "C18"],
        "unix.send_first_fragment/requires.kernel_wf": [],
        "unix.send_followup_fragment/requires.fits_followup_read": ["C13", "C01", "C18"],
        "unix.send_followup_fragment/requires.kernel_wf": [],
        "unix.send_followup_fragment/requires.sender_does_not_hold_the_receive_end": ["C09"],
    },
    kernel_clauses=[
        "sendmsg/send on SOCK_SEQPACKET append exactly one whole packet to the peer's FIFO and return >0, or append nothing and fail with an arbitrary error (every ENOBUFS/EPIPE pattern)",
        "socketpair returns two descriptors not in use before and an empty queue",
        "SYSTEM_SENDBUF_SIZE is a run constant with 48 <= value <= isize::MAX",
        "a blocked or later write to a SOCK_SEQPACKET socket fails (EPIPE) once no descriptor of its receive end is open anywhere; descriptors in flight are released when the carrying socket is closed",
    ],
)
