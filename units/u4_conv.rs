// ---------------------------------------------------------------------------
// U4b prelude: error conversions of the unix transport (src/platform/unix/mod.rs 937-972).
// ---------------------------------------------------------------------------
pub const EAGAIN: c_int = 11;
pub const EWOULDBLOCK: c_int = 11;
pub mod io { pub use std::io::Error; }
pub mod ipc {
    // src/ipc.rs: public error types (Bincode variant payload elided)
    pub enum IpcError { Bincode(()), Io(std::io::Error), Disconnected }
    pub enum TryRecvError { IpcError(IpcError), Empty }
}
// io::Error::from(UnixError) (the From impl just above these in the repository)
#[verifier::external_body]
pub fn io_error_from(e: UnixError) -> (r: std::io::Error) { unimplemented!() }

// the OS error code an io::Error carries (None for errors built from a kind and a payload)
pub uninterp spec fn io_raw(e: std::io::Error) -> Option<i32>;
pub assume_specification [std::io::Error::from_raw_os_error] (code: i32) -> (r: std::io::Error)
    ensures io_raw(r) == Some(code);
// io::Error::new(io::ErrorKind::ConnectionReset, unix_error)
#[verifier::external_body]
pub fn io_error_connection_reset(payload: UnixError) -> (r: std::io::Error) ensures io_raw(r) is None { unimplemented!() }
pub struct UnixErrorToIo;
