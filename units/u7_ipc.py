"""U7 - src/ipc.rs: thread-local side tables of IpcSender::send / OpaqueIpcMessage::to and the
index <-> position layer (serialize_os_ipc_*, deserialize_os_ipc_*, IpcSharedMemory).  Verus."""
from vf.gen import QuestionFrom, Unit, Fn, Clause, Hint, Rule, Loop, TlsWith, MutSelf, TailMethodToCall, AppendArg

F = "src/ipc.rs"

T_SER_CH = TlsWith("OS_IPC_CHANNELS_FOR_SERIALIZATION", "ser_channels")
T_SER_RG = TlsWith("OS_IPC_SHARED_MEMORY_REGIONS_FOR_SERIALIZATION", "ser_regions")
T_DE_CH = TlsWith("OS_IPC_CHANNELS_FOR_DESERIALIZATION", "de_channels")
T_DE_RG = TlsWith("OS_IPC_SHARED_MEMORY_REGIONS_FOR_DESERIALIZATION", "de_regions")
R_TAKE = Rule("D3", r"\bmem::take\(", "take_vec(", "mem::take on a Vec -> wrapper with spec")
R_SER_INTO = Rule("B6", r"bincode::serialize_into\(&mut bytes, &data\)", "bincode_serialize_into(&mut bytes, &data, tls)",
                  "dependency: bincode + the user's Serialize impls (stub: lists only grow, nested sends allowed)", min_count=1)
R_OSSEND = Rule("B5", r"Ok\(self\.os_sender\.send\(\s*(&bytes\[\.\.\]),\s*(\w+),\s*(\w+),?\s*\)\?\)",
                r"self.os_sender.send_converted(\1, \2, \3, tls)",
                "platform send (unit U2) + `?`/From<UnixError> conversion -> stub that logs what it was handed")
R_OSSEND2 = AppendArg("B5b", r"self\.os_sender\.send\(", "tls", "platform send (unit U2) seen without the `?` (explicit match + From::from): stub that logs what it was handed")
R_DESER = AppendArg("B7", r"bincode::deserialize\(", "tls", "dependency: bincode + the user's Deserialize impls", rename="bincode_deserialize")
R_SER_USIZE = Rule("D6a", r"\bindex\.serialize\(serializer\)", "serialize_usize(index, serializer)", "serde: usize::serialize")
R_DE_USIZE = Rule("D6b", r"Deserialize::deserialize\(deserializer\)", "deserialize_usize(deserializer, tls)", "serde: usize::deserialize (any value; recorded in a ghost log)")
R_DE_CUSTOM = Rule("D6c", r"\bD::Error::custom\(", "de_error_custom::<D>(", "serde::de::Error::custom")
R_SERIALIZE_TAIL = Rule("D6d", r"\}\s*\.serialize\(serializer\)", "}.ser(serializer)", "usize::serialize on a block expression")

TLS = "tls: &mut Tls"

ipc_send = Fn(F, ["impl<T> IpcSender<T> where T: Serialize,", "send"], ret="r", extra_params=TLS,
    ensures=[
        Clause("ipc.IpcSender.send/ensures.tables_restored_on_every_exit",
               "final(tls).ser_channels@ == old(tls).ser_channels@ && final(tls).ser_regions@ == old(tls).ser_regions@\n"
               "&& final(tls).de_channels@ == old(tls).de_channels@ && final(tls).de_regions@ == old(tls).de_regions@", ["C14", "C04", "C05", "C03", "C09", "C11", "C01"]),
        Clause("ipc.IpcSender.send/ensures.sent_only_own_attachments",
               "old(tls).sent.is_prefix_of(final(tls).sent) && (r is Ok ==> final(tls).sent.len() > old(tls).sent.len())", ["C14", "C04"]),
    ],
    hints=[
        Hint("body:start", "let ghost t0 = *tls;"),
    ],
    rules=[T_SER_CH, T_SER_RG, R_TAKE, R_SER_INTO, R_OSSEND, R_OSSEND2],
    safety_props=["C14", "C18"])

msg_to = Fn(F, ["impl OpaqueIpcMessage", "to"], ret="r", extra_params=TLS,
    ensures=[
        Clause("ipc.OpaqueIpcMessage.to/ensures.tables_restored_on_every_exit",
               "final(tls).de_channels@ == old(tls).de_channels@ && final(tls).de_regions@ == old(tls).de_regions@\n"
               "&& final(tls).ser_channels@ == old(tls).ser_channels@ && final(tls).ser_regions@ == old(tls).ser_regions@", ["C14", "C16", "C03", "C09", "C11", "C20", "C05", "C04"]),
    ],
    rules=[MutSelf(), R_TAKE, T_DE_CH, T_DE_RG, AppendArg("B7", r"bincode::deserialize\(", "tls", "dependency: bincode + the user's Deserialize impls", rename="bincode_deserialize"),
           AppendArg("B7b", r"bincode::deserialize_from\(", "tls", "dependency: bincode's reader entry point (not total)", rename="bincode_deserialize_from")],
    safety_props=["C16", "C18"])

ser_sender = Fn(F, ["serialize_os_ipc_sender"], ret="r", extra_params=TLS,
    ensures=[
        Clause("ipc.serialize_os_ipc_sender/ensures.pushes_one_and_writes_its_position",
               "final(tls).ser_channels@.len() == old(tls).ser_channels@.len() + 1\n"
               "&& final(tls).ser_channels@.drop_last() == old(tls).ser_channels@\n"
               "&& final(tls).ser_channels@.last().spec_fd() == os_ipc_sender.fd.0\n"
               "&& (r is Ok ==> ser_written::<S>(r) == old(tls).ser_channels@.len())", ["C04", "C14"]),
        Clause("ipc.serialize_os_ipc_sender/ensures.step", "ser_step(*old(tls), *final(tls))", ["C14"]),
    ],
    rules=[T_SER_CH, R_SER_USIZE], safety_props=["C18"])

ser_receiver = Fn(F, ["serialize_os_ipc_receiver"], ret="r", extra_params=TLS,
    ensures=[
        Clause("ipc.serialize_os_ipc_receiver/ensures.pushes_one_and_writes_its_position",
               "final(tls).ser_channels@.len() == old(tls).ser_channels@.len() + 1\n"
               "&& final(tls).ser_channels@.drop_last() == old(tls).ser_channels@\n"
               "&& final(tls).ser_channels@.last().spec_fd() == cell_val(&os_receiver.fd)\n"
               "&& (r is Ok ==> ser_written::<S>(r) == old(tls).ser_channels@.len())", ["C04", "C14"]),
        Clause("ipc.serialize_os_ipc_receiver/ensures.step", "ser_step(*old(tls), *final(tls))", ["C14"]),
    ],
    rules=[T_SER_CH, R_SER_USIZE], safety_props=["C18"])

de_sender = Fn(F, ["deserialize_os_ipc_sender"], ret="r", extra_params=TLS,
    requires=[Clause("ipc.deserialize_os_ipc_sender/requires.attachments_in_the_table_are_unclaimed", "unclaimed(*old(tls))")],
    ensures=[
        Clause("ipc.deserialize_os_ipc_sender/ensures.table_stays_unclaimed", "unclaimed(*final(tls))", ["C16"]),
        Clause("ipc.deserialize_os_ipc_sender/ensures.endpoint_is_this_messages_attachment",
               "r matches Ok(s) ==> exists|i: int| 0 <= i < old(tls).de_channels@.len() && (#[trigger] old(tls).de_channels@[i]) is Some\n"
               "    && s.fd.0 == old(tls).de_channels@[i]->0.fd && final(tls).de_channels@ == old(tls).de_channels@.update(i, None)", ["C16", "C04"]),
        Clause("ipc.deserialize_os_ipc_sender/ensures.claimed_slot_is_the_decoded_index",
               "r matches Ok(s) ==> final(tls).decoded.len() == old(tls).decoded.len() + 1 && final(tls).decoded.last() < old(tls).de_channels@.len()\n"
               "&& old(tls).de_channels@[final(tls).decoded.last() as int] is Some && s.fd.0 == old(tls).de_channels@[final(tls).decoded.last() as int]->0.fd", ["C16", "C04"]),
        Clause("ipc.deserialize_os_ipc_sender/ensures.error_leaves_the_table_alone", "r is Err ==> final(tls).de_channels@ == old(tls).de_channels@", ["C16"]),
        Clause("ipc.deserialize_os_ipc_sender/ensures.step", "de_step(*old(tls), *final(tls))", ["C14", "C16"]),
    ],
    rules=[T_DE_CH, R_DE_USIZE, R_DE_CUSTOM], safety_props=["C16", "C18"])

de_receiver = Fn(F, ["deserialize_os_ipc_receiver"], ret="r", extra_params=TLS,
    requires=[Clause("ipc.deserialize_os_ipc_receiver/requires.attachments_in_the_table_are_unclaimed", "unclaimed(*old(tls))")],
    ensures=[
        Clause("ipc.deserialize_os_ipc_receiver/ensures.table_stays_unclaimed", "unclaimed(*final(tls))", ["C16"]),
        Clause("ipc.deserialize_os_ipc_receiver/ensures.endpoint_is_this_messages_attachment",
               "r matches Ok(s) ==> exists|i: int| 0 <= i < old(tls).de_channels@.len() && (#[trigger] old(tls).de_channels@[i]) is Some\n"
               "    && cell_val(&s.fd) == old(tls).de_channels@[i]->0.fd && final(tls).de_channels@ == old(tls).de_channels@.update(i, None)", ["C16", "C04"]),
        Clause("ipc.deserialize_os_ipc_receiver/ensures.claimed_slot_is_the_decoded_index",
               "r matches Ok(s) ==> final(tls).decoded.len() == old(tls).decoded.len() + 1 && final(tls).decoded.last() < old(tls).de_channels@.len()\n"
               "&& old(tls).de_channels@[final(tls).decoded.last() as int] is Some && cell_val(&s.fd) == old(tls).de_channels@[final(tls).decoded.last() as int]->0.fd", ["C16", "C04"]),
        Clause("ipc.deserialize_os_ipc_receiver/ensures.error_leaves_the_table_alone", "r is Err ==> final(tls).de_channels@ == old(tls).de_channels@", ["C16"]),
        Clause("ipc.deserialize_os_ipc_receiver/ensures.step", "de_step(*old(tls), *final(tls))", ["C14", "C16"]),
    ],
    rules=[T_DE_CH, R_DE_USIZE, R_DE_CUSTOM], safety_props=["C16", "C18"])

shm_de = Fn(F, ["impl<'de> Deserialize<'de> for IpcSharedMemory", "deserialize"], ret="r", extra_params=TLS,
    ensures=[
        Clause("ipc.IpcSharedMemory.deserialize/ensures.region_is_this_messages_attachment",
               "r matches Ok(m) ==> (m.os_shared_memory is None && final(tls).de_regions@ == old(tls).de_regions@)\n"
               "    || exists|i: int| 0 <= i < old(tls).de_regions@.len() && m.os_shared_memory == (#[trigger] old(tls).de_regions@[i])\n"
               "        && m.os_shared_memory is Some && final(tls).de_regions@ == old(tls).de_regions@.update(i, None)", ["C16", "C05"]),
        Clause("ipc.IpcSharedMemory.deserialize/ensures.empty_region_only_for_the_reserved_index_claimed_slot_is_the_decoded_index",
               "r matches Ok(m) ==> final(tls).decoded.len() == old(tls).decoded.len() + 1\n"
               "&& (m.os_shared_memory is None ==> final(tls).decoded.last() == usize::MAX)\n"
               "&& (m.os_shared_memory is Some ==> final(tls).decoded.last() < old(tls).de_regions@.len() && m.os_shared_memory == old(tls).de_regions@[final(tls).decoded.last() as int])", ["C16", "C05"]),
        Clause("ipc.IpcSharedMemory.deserialize/ensures.step", "de_step(*old(tls), *final(tls))", ["C14", "C16"]),
    ],
    rules=[T_DE_RG, R_DE_USIZE, R_DE_CUSTOM,
           Rule("D6e", r"(?<=fn deserialize)<D>", "<'de, D>", "trait-impl method lifted to an inherent method: the impl's lifetime parameter moves to the fn")],
    safety_props=["C16", "C18"])

shm_ser = Fn(F, ["impl Serialize for IpcSharedMemory", "serialize"], ret="r", extra_params=TLS,
    ensures=[
        Clause("ipc.IpcSharedMemory.serialize/ensures.pushes_one_and_writes_its_position",
               "(self.os_shared_memory is None ==> final(tls).ser_regions@ == old(tls).ser_regions@ && (r is Ok ==> ser_written::<S>(r) == usize::MAX))\n"
               "&& (self.os_shared_memory is Some ==> final(tls).ser_regions@.len() == old(tls).ser_regions@.len() + 1\n"
               "    && final(tls).ser_regions@.drop_last() == old(tls).ser_regions@ && (r is Ok ==> ser_written::<S>(r) == old(tls).ser_regions@.len()))", ["C05", "C04", "C14"]),
        Clause("ipc.IpcSharedMemory.serialize/ensures.step", "ser_step(*old(tls), *final(tls))", ["C14"]),
    ],
    hints=[Hint("before:debug_assert!\\(", "proof { axiom_vec_len_le_isize_max(&tls.ser_regions); }", "IpcSharedMemory::serialize/body-safety")],
    rules=[T_SER_RG, TailMethodToCall("D6f", r"\.serialize\(serializer\)", "serialize_usize", "serializer", "serde: usize::serialize on the if-expression")],
    safety_props=["C18"])

G = "Tracked(g): Tracked<&mut Seq<OsRecv>>"
GA = "Tracked(&mut *g)"
sender_to_opaque = Fn(F, ["impl<T> IpcSender<T> where T: Serialize,", "to_opaque"], ret="r",
    ensures=[Clause("ipc.IpcSender.to_opaque/ensures.same_endpoint", "r.os_sender == self.os_sender", ["C04"])], safety_props=["C18"])
receiver_to_opaque = Fn(F, ["impl<T> IpcReceiver<T> where T: for<'de> Deserialize<'de> + Serialize,", "to_opaque"], ret="r",
    ensures=[Clause("ipc.IpcReceiver.to_opaque/ensures.same_endpoint", "r.os_receiver == self.os_receiver", ["C04"])], safety_props=["C18"])
opaque_sender_to = Fn(F, ["impl OpaqueIpcSender", "to"], ret="r",
    ensures=[Clause("ipc.OpaqueIpcSender.to/ensures.same_endpoint", "r.os_sender == self.os_sender", ["C04"])], safety_props=["C18"])
opaque_receiver_to = Fn(F, ["impl OpaqueIpcReceiver", "to"], ret="r",
    ensures=[Clause("ipc.OpaqueIpcReceiver.to/ensures.same_endpoint", "r.os_receiver == self.os_receiver", ["C04"])], safety_props=["C18"])
bytes_recv = Fn(F, ["impl IpcBytesReceiver", "recv"], ret="r", extra_params=G,
    ensures=[Clause("ipc.IpcBytesReceiver.recv/ensures.raw_payload_or_converted_error",
                    "final(g).len() == old(g).len() + 1 && final(g).drop_last() == *old(g)\n"
                    "&& (r matches Ok(d) ==> final(g).last().ok && d@ == final(g).last().data)\n"
                    "&& (r is Err ==> !final(g).last().ok)", ["C01", "C03"]),
             Clause("ipc.IpcBytesReceiver.recv/ensures.error_is_the_platform_error_converted_once",
                    "r matches Err(e) ==> final(g).last().err is Some && e == conv_ipc(final(g).last().err->0)", ["C03", "C10"])],
    rules=[AppendArg("B50", r"self\.os_receiver\.recv\(", GA, "platform recv stub (logs what it handed up)", min_count=1),
           Rule("D22", r"Err\(err\.into\(\)\)", "Err(into_ipc_error(err))", "`.into()` at type IpcError (From impl of unit U4b)"),
           QuestionFrom("D34", r"self\.os_receiver\.recv\(")],
    safety_props=["C18"])
bytes_try_recv = Fn(F, ["impl IpcBytesReceiver", "try_recv"], ret="r", extra_params=G,
    ensures=[Clause("ipc.IpcBytesReceiver.try_recv/ensures.raw_payload_or_converted_error",
                    "final(g).len() == old(g).len() + 1 && final(g).drop_last() == *old(g)\n"
                    "&& (r matches Ok(d) ==> final(g).last().ok && d@ == final(g).last().data)\n"
                    "&& (r is Err ==> !final(g).last().ok)", ["C01", "C10"]),
             Clause("ipc.IpcBytesReceiver.try_recv/ensures.error_is_the_platform_error_converted_once",
                    "r matches Err(e) ==> final(g).last().err is Some && e == conv_try(final(g).last().err->0)", ["C10", "C03"])],
    rules=[AppendArg("B50", r"self\.os_receiver\.try_recv\(", GA, "platform try_recv stub", min_count=1),
           Rule("D22", r"Err\(err\.into\(\)\)", "Err(into_try_recv_error(err))", "`.into()` at type TryRecvError"),
           QuestionFrom("D34", r"self\.os_receiver\.try_recv\(")],
    safety_props=["C18"])

UNIT = Unit(
    name="u7_ipc",
    prelude=["units/common.rs", "units/unix_types.rs", "units/u7_ipc.rs"],
    groups=[("impl<T> IpcSender<T> where T: Serialize", [ipc_send, sender_to_opaque]),
            ("impl<T> IpcReceiver<T>", [receiver_to_opaque]),
            ("impl OpaqueIpcSender", [opaque_sender_to]), ("impl OpaqueIpcReceiver", [opaque_receiver_to]),
            ("impl IpcBytesReceiver", [bytes_recv, bytes_try_recv]),
            ("impl OpaqueIpcMessage", [msg_to]),
            (None, [ser_sender, ser_receiver, de_sender, de_receiver]),
            ("impl IpcSharedMemory", [shm_de, shm_ser])],
    props=["C01", "C03", "C04", "C05", "C09", "C10", "C11", "C14", "C16", "C18", "C20"],
    prelude_clauses={
        "ipc.IpcSender.send/requires.serialisation_starts_from_empty_attachment_lists": ["C14", "C04", "C05"],
        "unix.OsOpaqueIpcChannel.to_sender/requires.not_already_taken": ["C16"],
        "unix.OsOpaqueIpcChannel.to_receiver/requires.not_already_taken": ["C16"],
        "ipc.OpaqueIpcMessage.to/requires.decoder_bounds_allocations_by_the_input": ["C16"],
    },
    kernel_clauses=[
        "serde/bincode: while a value is (de)serialised, user impls only append to the serialisation lists / take from the deserialisation lists and may perform complete nested sends (ser_step / de_step)",
        "thread-locals are modelled as an explicit &mut Tls: RefCell's dynamic double-borrow panic and thread identity are not modelled",
    ],
)
