"""U12 - src/ipc.rs: IpcReceiverSet::{add, add_opaque, select} and the mapping closure of select.  Verus."""
from vf.gen import Unit, Fn, ClosureFn, Clause, Hint, Rule, AppendArg, MapCollect

F = "src/ipc.rs"
GG = "Tracked(&mut *g)"
TG = "Tracked(g): Tracked<&mut G>"
SET = "impl IpcReceiverSet"

add = Fn(F, [SET, "add"], ret="r", extra_params=TG,
    ensures=[Clause("ipc.IpcReceiverSet.add/ensures.id_is_the_one_the_platform_set_gave_this_receiver",
                    "(r matches Ok(id) ==> final(g).added == old(g).added.push((receiver.os_receiver.rid, id))) && (r is Err ==> final(g).added == old(g).added)\n"
                    "&& final(g).selected == old(g).selected", ["C06"])],
    rules=[AppendArg("B80", r"self\.os_receiver_set\.add\(", GG, "platform receiver set (unit U5), `?` conversion folded in", min_count=1)],
    safety_props=["C06"])
add_opaque = Fn(F, [SET, "add_opaque"], ret="r", extra_params=TG,
    ensures=[Clause("ipc.IpcReceiverSet.add_opaque/ensures.id_is_the_one_the_platform_set_gave_this_receiver",
                    "(r matches Ok(id) ==> final(g).added == old(g).added.push((receiver.os_receiver.rid, id))) && (r is Err ==> final(g).added == old(g).added)\n"
                    "&& final(g).selected == old(g).selected", ["C06", "C07"])],
    rules=[AppendArg("B80", r"self\.os_receiver_set\.add\(", GG, "platform receiver set (unit U5)", min_count=1)],
    safety_props=["C06"])
select = Fn(F, [SET, "select"], ret="r", extra_params=TG,
    ensures=[Clause("ipc.IpcReceiverSet.select/ensures.one_result_per_platform_event_same_order_same_id_same_content",
                    "r matches Ok(v) ==> final(g).selected == old(g).selected.push(final(g).selected.last()) && v@.len() == final(g).selected.last().len()\n"
                    "&& (forall|i: int| 0 <= i < v@.len() ==> event_ok(final(g).selected.last()[i], #[trigger] v@[i]))", ["C06", "C07"]),
             Clause("ipc.IpcReceiverSet.select/ensures.frame", "final(g).added == old(g).added && (r is Err ==> final(g).selected == old(g).selected)")],
    rules=[AppendArg("B81", r"self\.os_receiver_set\.select\(", GG, "platform select (unit U5)", min_count=1),
           MapCollect("D30", "result", "map_results", "iterator adapter chain -> stub stating the element-wise map; the closure body is verified separately")],
    safety_props=["C06"])
map_closure = ClosureFn(F, [SET, "select"], "map", value=True, opener=r"\.map\(\s*\|result\|",
    sig="pub fn select_map(result: OsIpcSelectionResult) -> (r: IpcSelectionResult)",
    ensures=[Clause("ipc.IpcReceiverSet.select.{closure:map}/ensures.same_id_same_bytes_same_attachments_in_order", "event_ok(result, r)", ["C06", "C04", "C05"])],
    rules=[Rule("D29", r"(\w+)\s*\.into_iter\(\)\s*\.map\(Some\)\s*\.collect\(\)", r"wrap_some(\1)", "iterator adapter chain -> stub stating exactly the element-wise wrap")],
    hints=[],
    safety_props=["C06"])

UNIT = Unit(
    name="u12_ipcset",
    prelude=["units/common.rs", "units/u12_ipcset.rs"],
    groups=[("impl IpcReceiverSet", [add, add_opaque, select]), ("", [map_closure])],
    props=["C06", "C07", "C04", "C05"],
    kernel_clauses=[
        "the platform receiver set behaves as specified in unit U5",
        "`v.into_iter().map(f).collect()` applies f to every element once, in order (std iterators)",
    ],
)
