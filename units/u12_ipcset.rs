// ---------------------------------------------------------------------------
// U12 prelude: IpcReceiverSet::{add, add_opaque, select} of src/ipc.rs over a stand-in for the
// platform receiver set (unit U5).  `?`'s UnixError -> io::Error conversion is folded into the stubs.
// ---------------------------------------------------------------------------
pub struct OsIpcReceiver { pub ghost rid: int }
pub struct OsOpaqueIpcChannel { pub ghost cid: int }
pub struct OsIpcSharedMemory { pub ghost mid: int }
#[derive(Debug)] pub struct IoError { pub _p: () }
pub mod io { pub type Error = super::IoError; }
pub enum OsIpcSelectionResult {
    DataReceived(u64, Vec<u8>, Vec<OsOpaqueIpcChannel>, Vec<OsIpcSharedMemory>),
    ChannelClosed(u64),
}
pub struct OpaqueIpcMessage {
    pub data: Vec<u8>,
    pub os_ipc_channels: Vec<Option<OsOpaqueIpcChannel>>,
    pub os_ipc_shared_memory_regions: Vec<Option<OsIpcSharedMemory>>,
}
pub enum IpcSelectionResult { MessageReceived(u64, OpaqueIpcMessage), ChannelClosed(u64) }
pub struct OsIpcReceiverSet { pub _p: () }
pub struct IpcReceiverSet { pub os_receiver_set: OsIpcReceiverSet }
pub struct IpcReceiver<T> { pub os_receiver: OsIpcReceiver, pub phantom: PhantomData<T> }
pub struct OpaqueIpcReceiver { pub os_receiver: OsIpcReceiver }

pub struct G {
    pub added: Seq<(int, u64)>,                  // (receiver, id) for every successful platform add, in order
    pub selected: Seq<Seq<OsIpcSelectionResult>>, // every batch the platform select returned
}
pub open spec fn wrapped<T>(s: Seq<T>) -> Seq<Option<T>> { Seq::new(s.len(), |i: int| Some(s[i])) }
// what one platform event must become: same id, same bytes, same attachments in the same order
pub open spec fn event_ok(o: OsIpcSelectionResult, r: IpcSelectionResult) -> bool {
    match o {
        OsIpcSelectionResult::DataReceived(id, d, c, m) => r matches IpcSelectionResult::MessageReceived(id2, msg)
            && id2 == id && msg.data@ == d@ && msg.os_ipc_channels@ == wrapped(c@) && msg.os_ipc_shared_memory_regions@ == wrapped(m@),
        OsIpcSelectionResult::ChannelClosed(id) => r matches IpcSelectionResult::ChannelClosed(id2) && id2 == id,
    }
}
// std's slice sorts: the result is a rearrangement of the input.  Nothing is said about the order
// (in particular not about the relative order of equal keys: `sort_unstable*` does not keep it).
pub assume_specification<T, K: core::cmp::Ord, F: FnMut(&T) -> K>[ <[T]>::sort_unstable_by_key ](s: &mut [T], f: F)
    ensures final(s)@.to_multiset() == old(s)@.to_multiset();
pub assume_specification<T, K: core::cmp::Ord, F: FnMut(&T) -> K>[ <[T]>::sort_by_key ](s: &mut [T], f: F)
    ensures final(s)@.to_multiset() == old(s)@.to_multiset();
impl OsIpcReceiverSet {
    #[verifier::external_body]
    pub fn add(&mut self, receiver: OsIpcReceiver, Tracked(g): Tracked<&mut G>) -> (r: Result<u64, IoError>)
        ensures final(g).selected == old(g).selected,
                r matches Ok(id) ==> final(g).added == old(g).added.push((receiver.rid, id)),
                r is Err ==> final(g).added == old(g).added,
    { unimplemented!() }
    #[verifier::external_body]
    pub fn select(&mut self, Tracked(g): Tracked<&mut G>) -> (r: Result<Vec<OsIpcSelectionResult>, IoError>)
        ensures final(g).added == old(g).added,
                r matches Ok(v) ==> final(g).selected == old(g).selected.push(v@),
                r is Err ==> final(g).selected == old(g).selected,
    { unimplemented!() }
}
// `.into_iter().map(|result| BODY).collect()`: element-wise, order-preserving; BODY is verified against event_ok as {closure:map}
#[verifier::external_body]
pub fn map_results(v: Vec<OsIpcSelectionResult>) -> (r: Vec<IpcSelectionResult>)
    ensures r@.len() == v@.len(), forall|i: int| 0 <= i < v@.len() ==> event_ok(v@[i], #[trigger] r@[i])
{ unimplemented!() }
// `regions.into_iter().map(Some).collect()` (D29)
#[verifier::external_body]
pub fn wrap_some<T>(v: Vec<T>) -> (r: Vec<Option<T>>)
    ensures r@ == wrapped(v@)
{ v.into_iter().map(Some).collect() }
// serde's traits (stand-ins, D6): only mentioned in a where clause here
pub trait Serialize {}
pub trait Deserialize<'de>: Sized {}

impl OpaqueIpcMessage {
    // OpaqueIpcMessage::new (under contract in unit U10)
    #[verifier::external_body]
    pub fn new(data: Vec<u8>, os_ipc_channels: Vec<OsOpaqueIpcChannel>, os_ipc_shared_memory_regions: Vec<OsIpcSharedMemory>) -> (r: OpaqueIpcMessage)
        ensures r.data@ == data@, r.os_ipc_channels@ == wrapped(os_ipc_channels@), r.os_ipc_shared_memory_regions@ == wrapped(os_ipc_shared_memory_regions@)
    { unimplemented!() }
}
