// ---------------------------------------------------------------------------
// Common prelude of the unix-transport units (trusted text, hand written).
// Nothing in this file is code of the repository.  It holds: type stand-ins
// whose *field names* match the repository's, the ghost kernel model K
// (DESIGN.md 1.2) and library specs vstd lacks.  Every `external_body`,
// `assume_specification` and `uninterp` item here is listed in the evidence
// files under trusted_base by a mechanical scan.
// ---------------------------------------------------------------------------
#![feature(allocator_api)]
#![feature(sized_hierarchy)]
#![allow(unused_imports, dead_code, unused_variables, unused_mut, unused_unsafe, non_snake_case, unused_assignments)]
use vstd::prelude::*;
use std::cmp;
use std::sync::Arc;
use std::cell::Cell;
use std::marker::PhantomData;
use std::mem;
use vstd::std_specs::cmp::OrdSpec;
verus! {

global size_of usize == 8;

#[allow(non_camel_case_types)] pub type c_int = i32;
#[allow(non_camel_case_types)] pub type size_t = usize;
pub const RESERVED_SIZE: usize = 32;
pub const MAX_FDS_IN_CMSG: u32 = 64;
pub mod libc {
    // x86_64-linux-gnu values of the libc crate's constants the extracted code may mention
    pub const ENOBUFS: i32 = 105;
    pub const EMSGSIZE: i32 = 90;
    pub const EAGAIN: i32 = 11;
    pub const EWOULDBLOCK: i32 = 11;
    pub const EINTR: i32 = 4;
    pub const EINVAL: i32 = 22;
    pub const EPIPE: i32 = 32;
    pub const ECONNRESET: i32 = 104;
    pub const ENOMEM: i32 = 12;
    pub const EIO: i32 = 5;
    pub const E2BIG: i32 = 7;
    pub const ETOOMANYREFS: i32 = 109;
    pub const MSG_PEEK: i32 = 0x2;
    pub const MSG_TRUNC: i32 = 0x20;
    pub const MSG_DONTWAIT: i32 = 0x40;
    pub const MSG_WAITALL: i32 = 0x100;
    pub const MSG_NOSIGNAL: i32 = 0x4000;
    pub const MSG_CMSG_CLOEXEC: i32 = 0x40000000;
    pub const O_NONBLOCK: i32 = 2048;
    pub const F_DUPFD_CLOEXEC: i32 = 1030;
    pub const F_SETFL: i32 = 4;
    pub const SOCK_CLOEXEC: i32 = 0o2000000;
}

#[verifier::external_type_specification]
#[verifier::external_body]
pub struct ExIoError(std::io::Error);

pub enum UnixError { Errno(c_int), ChannelClosed, IoError(std::io::Error) }

pub assume_specification<T: std::cmp::Ord> [std::cmp::min] (a: T, b: T) -> (r: T)
    ensures T::obeys_cmp_spec() ==> r == (if a.cmp_spec(&b) == std::cmp::Ordering::Greater { b } else { a });
pub assume_specification<T: std::cmp::Ord> [std::cmp::max] (a: T, b: T) -> (r: T)
    ensures T::obeys_cmp_spec() ==> r == (if a.cmp_spec(&b) == std::cmp::Ordering::Greater { a } else { b });

// ---------------- ghost kernel (DESIGN.md 1.2) ----------------
pub struct Packet { pub hdr: Option<nat>, pub data: Seq<u8>, pub fds: Seq<c_int> }
// one transmission attempt (sendmsg / send) as seen at the libc boundary
pub struct Attempt { pub fd: c_int, pub len: nat, pub first: bool, pub ok: bool, pub enobufs: bool }
pub struct K {
    pub q: Map<c_int, Seq<Packet>>,     // receiving descriptor -> FIFO of whole packets
    pub peer: Map<c_int, c_int>,        // sending descriptor -> receiving descriptor it is connected to
    pub sock: Set<c_int>,               // descriptors fstat reports as sockets
    pub log: Seq<Attempt>,              // every transmission attempt, in program order
    pub own_rx: Set<c_int>,             // receive-end descriptors THIS process still holds open
    pub consumed: Set<c_int>,           // descriptors taken out of their owning OsIpcReceiver (consume_fd): its Drop closes nothing
    pub errno: c_int,                   // the thread's errno: set by a FAILING system call, left alone (stale) by a successful one
    pub rx_modes: Seq<(c_int, int)>,    // every first-packet receive (UnixCmsg::recv): descriptor and blocking mode (0 blocking, 1 non-blocking, 2+ms timed)
}

pub open spec fn spec_frag(s: nat) -> nat { (s - 32) as nat }
pub open spec fn spec_first(s: nat) -> nat { ((((s - 40) as nat) / 8) * 8) as nat }

// the value of SO_SNDBUF read once per process (lazy_static SYSTEM_SENDBUF_SIZE): a run constant
pub uninterp spec fn sys_sendbuf() -> nat;
#[verifier::external_body]
pub fn system_sendbuf_size() -> (r: usize) ensures r == sys_sendbuf() { unimplemented!() }

pub open spec fn flat(q: Seq<Packet>) -> Seq<u8> decreases q.len() {
    if q.len() == 0 { Seq::empty() } else { flat(q.drop_last()) + q.last().data }
}
pub proof fn lemma_flat_push(q: Seq<Packet>, p: Packet)
    ensures flat(q.push(p)) == flat(q) + p.data
{
    assert(q.push(p).drop_last() == q);
}
pub proof fn lemma_flat_first(q: Seq<Packet>)
    requires q.len() > 0
    ensures flat(q) == q.first().data + flat(q.drop_first())
    decreases q.len()
{
    if q.len() == 1 {
        assert(q.drop_last() =~= Seq::<Packet>::empty());
        assert(q.drop_first() =~= Seq::<Packet>::empty());
        assert(flat(q.drop_last()) =~= Seq::<u8>::empty());
        assert(flat(q.drop_first()) =~= Seq::<u8>::empty());
        assert(flat(q) =~= q.last().data);
        assert(q.first() == q.last());
        assert(q.first().data + Seq::<u8>::empty() =~= q.first().data);
    } else {
        let r = q.drop_last();
        lemma_flat_first(r);
        assert(r.first() == q.first());
        assert(r.drop_first() =~= q.drop_first().drop_last());
        assert(q.drop_first().last() == q.last());
        assert(flat(q.drop_first()) == flat(q.drop_first().drop_last()) + q.last().data);
        assert(flat(q) == (q.first().data + flat(r.drop_first())) + q.last().data);
        assert((q.first().data + flat(r.drop_first())) + q.last().data =~= q.first().data + (flat(r.drop_first()) + q.last().data));
    }
}
pub proof fn lemma_first_mono(a: nat, b: nat)
    requires 40 <= a <= b
    ensures spec_first(a) <= spec_first(b), spec_first(a) + 40 <= a, a < spec_first(a) + 48
{
    assert(((a - 40) as nat) / 8 <= ((b - 40) as nat) / 8) by (nonlinear_arith) requires a - 40 <= b - 40, a >= 40;
    assert((((a - 40) as nat) / 8) * 8 <= a - 40) by (nonlinear_arith) requires a >= 40;
    assert((((a - 40) as nat) / 8) * 8 + 8 > a - 40) by (nonlinear_arith) requires a >= 40;
}
pub open spec fn followups_ok(q: Seq<Packet>) -> bool {
    forall|i: int| 0 <= i < q.len() ==> (#[trigger] q[i]).hdr is None && q[i].fds.len() == 0 && 0 < q[i].data.len() <= spec_frag(sys_sendbuf())
}
pub proof fn lemma_masks()
    ensures
        !8usize + 1 == 0xffff_ffff_ffff_fff8usize,
        !7usize == 0xffff_ffff_ffff_fff8usize,
        forall|x: usize| #[trigger] (x & 0xffff_ffff_ffff_fff8usize) == (x / 8) * 8,
{
    assert(!8usize + 1 == 0xffff_ffff_ffff_fff8usize) by (bit_vector);
    assert(!7usize == 0xffff_ffff_ffff_fff8usize) by (bit_vector);
    assert forall|x: usize| #[trigger] (x & 0xffff_ffff_ffff_fff8usize) == (x / 8) * 8 by {
        assert(x & 0xffff_ffff_ffff_fff8usize == (x / 8) * 8) by (bit_vector);
    }
}
pub proof fn lemma_first_mono_all()
    ensures forall|a: nat, b: nat| #![trigger spec_first(a), spec_first(b)] 40 <= a <= b ==> spec_first(a) <= spec_first(b),
            forall|a: nat| 40 <= a ==> #[trigger] spec_first(a) + 40 <= a && a < spec_first(a) + 48,
{
    assert forall|a: nat, b: nat| #![trigger spec_first(a), spec_first(b)] 40 <= a <= b implies spec_first(a) <= spec_first(b) by { lemma_first_mono(a, b); }
    assert forall|a: nat| 40 <= a implies #[trigger] spec_first(a) + 40 <= a && a < spec_first(a) + 48 by { lemma_first_mono(a, a); }
}
