// ---------------------------------------------------------------------------
// U10 prelude: the one-shot-server wrappers of src/ipc.rs (IpcOneShotServer::{new, accept},
// IpcSender::connect) over stand-ins for the platform layer (unit U9) and for
// OpaqueIpcMessage::to (unit U7).  The `?` conversions UnixError -> io::Error / bincode::Error
// are folded into the platform stubs (as B5 does for send).
// ---------------------------------------------------------------------------
pub struct OsIpcOneShotServer { pub ghost sid: int }
pub struct OsIpcReceiver { pub ghost rid: int }
pub enum IpcError { Bincode(BincodeError), Io(IoError), Disconnected }
pub enum TryRecvError { IpcError(IpcError), Empty }
pub use std::time::Duration;
pub assume_specification [std::time::Duration::as_millis] (d: &std::time::Duration) -> u128;
pub assume_specification [std::time::Duration::as_secs] (d: &std::time::Duration) -> u64;
pub assume_specification [std::time::Duration::is_zero] (d: &std::time::Duration) -> bool;
pub enum RecvKind { Blocking, Nonblocking, Timeout(Duration) }
pub struct OsIpcSender { pub ghost xid: int }
pub struct OsOpaqueIpcChannel { pub ghost cid: int }
pub struct OsIpcSharedMemory { pub ghost mid: int }
#[derive(Debug)] pub struct IoError { pub _p: () }
#[derive(Debug)] pub struct BincodeError { pub _p: () }
pub mod io { pub type Error = super::IoError; }
pub mod bincode {
    use vstd::prelude::*;
    pub type Error = super::BincodeError;
    // bincode::deserialize called directly: a decode that does NOT install the message's own attachment tables
    // (only OpaqueIpcMessage::to does), so it is not a decode "through `to`": nothing is known about its value
    #[verifier::external_body]
    pub fn deserialize<T>(bytes: &[u8]) -> (r: Result<T, Error>) { unimplemented!() }
}

pub struct IpcOneShotServer<T> { pub os_server: OsIpcOneShotServer, pub phantom: PhantomData<T> }
pub struct IpcReceiver<T> { pub os_receiver: OsIpcReceiver, pub phantom: PhantomData<T> }
pub struct IpcSender<T> { pub os_sender: OsIpcSender, pub phantom: PhantomData<T> }
pub struct OpaqueIpcMessage {
    pub data: Vec<u8>,
    pub os_ipc_channels: Vec<Option<OsOpaqueIpcChannel>>,
    pub os_ipc_shared_memory_regions: Vec<Option<OsIpcSharedMemory>>,
}

pub struct O {
    pub created: Option<(int, Seq<char>)>,     // platform server made by the latest OsIpcOneShotServer::new, and its name
    pub accepted: Option<(int, int, Seq<u8>, Seq<OsOpaqueIpcChannel>, Seq<OsIpcSharedMemory>)>,   // (server, receiver, first message) of the latest platform accept
    pub connected: Option<(int, Seq<char>)>,   // platform sender made by the latest OsIpcSender::connect, and the name used
    pub decodes: nat,                          // how many messages have been decoded
    pub recvs: Seq<(int, RecvKind)>,           // platform receives: (receiver, kind), in order
    pub got: Option<(Seq<u8>, Seq<OsOpaqueIpcChannel>, Seq<OsIpcSharedMemory>)>,   // what the latest successful platform receive returned
    pub sends: Seq<(int, Seq<u8>, nat, nat)>,  // platform sends: (sender, bytes, number of channels, number of regions), in order
    pub last_send_ok: bool,                    // ... and whether the latest one succeeded
    pub failed: nat,                           // platform receives that returned an error
    pub last_ipc_err: Option<IpcError>,        // ... and the latest such error (blocking receive)
    pub last_try_err: Option<TryRecvError>,    // ... (non-blocking / timed receive)
}
pub open spec fn same_oneshot(o0: O, o1: O) -> bool { o1.created == o0.created && o1.accepted == o0.accepted && o1.connected == o0.connected }
// the message a decoded value was decoded from
pub uninterp spec fn value_src<T>(v: T) -> (Seq<u8>, Seq<Option<OsOpaqueIpcChannel>>, Seq<Option<OsIpcSharedMemory>>);

impl OsIpcOneShotServer {
    #[verifier::external_body]
    pub fn new(Tracked(o): Tracked<&mut O>) -> (r: Result<(OsIpcOneShotServer, String), IoError>)
        ensures final(o).accepted == old(o).accepted, final(o).connected == old(o).connected, final(o).decodes == old(o).decodes,
                final(o).recvs == old(o).recvs, final(o).got == old(o).got,
                r matches Ok((srv, name)) ==> final(o).created == Some((srv.sid, name@)),
                r is Err ==> final(o).created == old(o).created,
    { unimplemented!() }
    #[verifier::external_body]
    pub fn accept(self, Tracked(o): Tracked<&mut O>) -> (r: Result<(OsIpcReceiver, Vec<u8>, Vec<OsOpaqueIpcChannel>, Vec<OsIpcSharedMemory>), BincodeError>)
        ensures final(o).created == old(o).created, final(o).connected == old(o).connected, final(o).decodes == old(o).decodes,
                final(o).recvs == old(o).recvs, final(o).got == old(o).got,
                r matches Ok((rx, d, c, m)) ==> final(o).accepted == Some((self.sid, rx.rid, d@, c@, m@)),
                r is Err ==> final(o).accepted == old(o).accepted,
    { unimplemented!() }
}
impl OsIpcSender {
    #[verifier::external_body]
    pub fn connect(name: String, Tracked(o): Tracked<&mut O>) -> (r: Result<OsIpcSender, IoError>)
        ensures final(o).created == old(o).created, final(o).accepted == old(o).accepted, final(o).decodes == old(o).decodes,
                final(o).recvs == old(o).recvs, final(o).got == old(o).got,
                r matches Ok(s) ==> final(o).connected == Some((s.xid, name@)),
                r is Err ==> final(o).connected == old(o).connected,
    { unimplemented!() }
}
impl OpaqueIpcMessage {
    // OpaqueIpcMessage::to (unit U7)
    #[verifier::external_body]
    pub fn to<T>(self, Tracked(o): Tracked<&mut O>) -> (r: Result<T, BincodeError>)
        ensures final(o).created == old(o).created, final(o).accepted == old(o).accepted, final(o).connected == old(o).connected,
                final(o).decodes == old(o).decodes + 1, final(o).recvs == old(o).recvs, final(o).got == old(o).got, final(o).failed == old(o).failed,
                r matches Ok(v) ==> value_src(v) == (self.data@, self.os_ipc_channels@, self.os_ipc_shared_memory_regions@),
    { unimplemented!() }
}
// `regions.into_iter().map(Some).collect()` (D29): same elements, same order, each wrapped
#[verifier::external_body]
pub fn wrap_some<T>(v: Vec<T>) -> (r: Vec<Option<T>>)
    ensures r@ == wrapped(v@)
{ v.into_iter().map(Some).collect() }
pub open spec fn wrapped<T>(s: Seq<T>) -> Seq<Option<T>> { Seq::new(s.len(), |i: int| Some(s[i])) }

// platform receives (units U3/K4) with `?`'s From<UnixError> conversion (unit U4b) folded in: the error the caller sees
impl OsIpcReceiver {
    #[verifier::external_body]
    pub fn recv(&self, Tracked(o): Tracked<&mut O>) -> (r: Result<(Vec<u8>, Vec<OsOpaqueIpcChannel>, Vec<OsIpcSharedMemory>), IpcError>)
        ensures same_oneshot(*old(o), *final(o)), final(o).decodes == old(o).decodes,
                final(o).recvs == old(o).recvs.push((self.rid, RecvKind::Blocking)),
                r matches Ok(t) ==> final(o).got == Some((t.0@, t.1@, t.2@)) && final(o).failed == old(o).failed,
                r matches Err(e) ==> final(o).got == old(o).got && final(o).failed == old(o).failed + 1 && final(o).last_ipc_err == Some(e),
    { unimplemented!() }
    #[verifier::external_body]
    pub fn try_recv(&self, Tracked(o): Tracked<&mut O>) -> (r: Result<(Vec<u8>, Vec<OsOpaqueIpcChannel>, Vec<OsIpcSharedMemory>), TryRecvError>)
        ensures same_oneshot(*old(o), *final(o)), final(o).decodes == old(o).decodes,
                final(o).recvs == old(o).recvs.push((self.rid, RecvKind::Nonblocking)),
                r matches Ok(t) ==> final(o).got == Some((t.0@, t.1@, t.2@)) && final(o).failed == old(o).failed,
                r matches Err(e) ==> final(o).got == old(o).got && final(o).failed == old(o).failed + 1 && final(o).last_try_err == Some(e),
    { unimplemented!() }
    #[verifier::external_body]
    pub fn try_recv_timeout(&self, duration: Duration, Tracked(o): Tracked<&mut O>) -> (r: Result<(Vec<u8>, Vec<OsOpaqueIpcChannel>, Vec<OsIpcSharedMemory>), TryRecvError>)
        ensures same_oneshot(*old(o), *final(o)), final(o).decodes == old(o).decodes,
                final(o).recvs == old(o).recvs.push((self.rid, RecvKind::Timeout(duration))),
                r matches Ok(t) ==> final(o).got == Some((t.0@, t.1@, t.2@)) && final(o).failed == old(o).failed,
                r matches Err(e) ==> final(o).got == old(o).got && final(o).failed == old(o).failed + 1 && final(o).last_try_err == Some(e),
    { unimplemented!() }
}
// serde's traits (stand-ins, D6): only mentioned in where clauses here
pub trait Serialize {}
pub trait Deserialize<'de>: Sized {}

pub struct OsIpcChannel { pub _p: () }
pub struct IpcBytesSender { pub os_sender: OsIpcSender }
impl OsIpcSender {
    // platform send (unit U2)
    #[verifier::external_body]
    pub fn send(&self, data: &[u8], channels: Vec<OsIpcChannel>, shared_memory_regions: Vec<OsIpcSharedMemory>, Tracked(o): Tracked<&mut O>) -> (r: Result<(), UnixError>)
        ensures same_oneshot(*old(o), *final(o)), final(o).decodes == old(o).decodes, final(o).recvs == old(o).recvs, final(o).got == old(o).got, final(o).failed == old(o).failed,
                final(o).sends == old(o).sends.push((self.xid, data@, channels@.len() as nat, shared_memory_regions@.len() as nat)),
                final(o).last_send_ok == (r is Ok),
    { unimplemented!() }
}
// io::Error::from(UnixError) (From impl of the platform module)
#[verifier::external_body]
pub fn unix_error_to_io(e: UnixError) -> (r: IoError) { unimplemented!() }
