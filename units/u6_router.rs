// ---------------------------------------------------------------------------
// U6 prelude: src/router.rs.  The receiver set (unit U5 / property C06), the
// crossbeam channel between proxy and router, and the boxed callbacks are
// stand-ins over a ghost world W; the handler call goes through router_invoke
// (D5: `Box<dyn FnMut>` calls are outside Verus).
// ---------------------------------------------------------------------------
use std::collections::HashMap;
pub use std::time::Duration;
pub assume_specification [std::time::Duration::from_millis] (ms: u64) -> std::time::Duration;
pub assume_specification [std::time::Duration::from_secs] (s: u64) -> std::time::Duration;

pub struct OpaqueIpcMessage { pub ghost mid: int }          // message identity
pub struct OpaqueIpcReceiver { pub ghost rid: int }
#[verifier::external_body]
pub struct RouterHandler { _p: () }                          // Box<dyn FnMut(OpaqueIpcMessage) + Send>
pub enum IpcSelectionResult { MessageReceived(u64, OpaqueIpcMessage), ChannelClosed(u64) }
pub struct AckSender { pub _p: () }                          // crossbeam Sender<()>
pub enum RouterMsg { AddRoute(OpaqueIpcReceiver, RouterHandler), Shutdown(AckSender) }
pub struct MsgReceiver { pub _p: () }                        // crossbeam Receiver<RouterMsg>
pub struct IpcReceiverSet { pub _p: () }
#[derive(Debug)]
pub struct RecvError { pub _p: () }
#[derive(Debug)]
pub struct SendError { pub _p: () }
#[derive(Debug)]
pub struct IoError { pub _p: () }

pub struct Router {
    pub msg_receiver: MsgReceiver,
    pub msg_wakeup_id: u64,
    pub ipc_receiver_set: IpcReceiverSet,
    pub handlers: HashMap<u64, RouterHandler>,
}

pub struct W {
    pub wakeup: u64,                      // id of the wake-up channel in the set
    pub live: Set<u64>,                   // ids currently in the receiver set
    pub issued: Set<u64>,                 // ids ever returned by add (never reused: monotone counter, C06)
    pub delivered: Seq<(u64, int)>,       // every MessageReceived(id, m) the set reported, in order
    pub calls: Seq<(u64, int)>,           // every handler invocation (route id, message), in order
    pub credit: nat,                      // wake-ups reported and not yet matched by a RouterMsg
    pub acked: bool,                      // shutdown has been acknowledged
    pub handlers_at_ack: nat,             // number of callbacks still alive when the acknowledgement was sent
}

pub open spec fn ev_id(e: IpcSelectionResult) -> u64 {
    match e { IpcSelectionResult::MessageReceived(id, _) => id, IpcSelectionResult::ChannelClosed(id) => id }
}
pub open spec fn msgs(r: Seq<IpcSelectionResult>) -> Seq<(u64, int)> decreases r.len() {
    if r.len() == 0 { Seq::empty() } else {
        match r.last() {
            IpcSelectionResult::MessageReceived(id, m) => msgs(r.drop_last()).push((id, m.mid)),
            IpcSelectionResult::ChannelClosed(_) => msgs(r.drop_last()),
        }
    }
}
// the messages addressed to routes (everything but the wake-up channel)
pub open spec fn routed(d: Seq<(u64, int)>, wakeup: u64) -> Seq<(u64, int)> decreases d.len() {
    if d.len() == 0 { Seq::empty() } else if d.last().0 != wakeup { routed(d.drop_last(), wakeup).push(d.last()) } else { routed(d.drop_last(), wakeup) }
}
pub open spec fn wakeups(r: Seq<IpcSelectionResult>, wakeup: u64) -> nat decreases r.len() {
    if r.len() == 0 { 0 } else {
        wakeups(r.drop_last(), wakeup) + (if r.last() is MessageReceived && ev_id(r.last()) == wakeup { 1nat } else { 0nat })
    }
}
// what the receiver set promises about one batch (property C06, assumed here):
// ids are members; after ChannelClosed(id) nothing more is reported for id
pub open spec fn batch_ok(r: Seq<IpcSelectionResult>, live: Set<u64>) -> bool {
    &&& forall|j: int| 0 <= j < r.len() ==> live.contains(ev_id(#[trigger] r[j]))
    &&& forall|j: int, l: int| 0 <= j < l < r.len() && (#[trigger] r[j]) is ChannelClosed ==> ev_id(#[trigger] r[l]) != ev_id(r[j])
}
pub open spec fn is_closed_in(r: Seq<IpcSelectionResult>, id: u64) -> bool {
    exists|j: int| 0 <= j < r.len() && (#[trigger] r[j]) is ChannelClosed && ev_id(r[j]) == id
}

impl IpcReceiverSet {
    #[verifier::external_body]
    pub fn select(&mut self, Tracked(w): Tracked<&mut W>) -> (r: Result<Vec<IpcSelectionResult>, IoError>)
        requires
            !old(w).acked, //@@clause:router.select/requires.not_after_shutdown_ack
        ensures
            final(w).wakeup == old(w).wakeup, final(w).issued == old(w).issued, final(w).calls == old(w).calls,
            final(w).acked == old(w).acked, final(w).handlers_at_ack == old(w).handlers_at_ack,
            r matches Ok(results) ==> {
                &&& batch_ok(results@, old(w).live)
                &&& forall|id: u64| #[trigger] final(w).live.contains(id) <==> old(w).live.contains(id) && !is_closed_in(results@, id)
                &&& final(w).delivered == old(w).delivered + msgs(results@)
                &&& final(w).credit == old(w).credit + wakeups(results@, old(w).wakeup)
            },
            r is Err ==> *final(w) == *old(w),
    { unimplemented!() }

    #[verifier::external_body]
    pub fn add_opaque(&mut self, receiver: OpaqueIpcReceiver, Tracked(w): Tracked<&mut W>) -> (r: Result<u64, IoError>)
        requires
            !old(w).acked, //@@clause:router.add_opaque/requires.not_after_shutdown_ack
        ensures
            final(w).wakeup == old(w).wakeup, final(w).calls == old(w).calls, final(w).delivered == old(w).delivered,
            final(w).credit == old(w).credit, final(w).acked == old(w).acked, final(w).handlers_at_ack == old(w).handlers_at_ack,
            r is Ok,   // assumption: registering the descriptor with epoll succeeds (the real code unwrap()s it)
            r matches Ok(id) ==> !old(w).issued.contains(id) && final(w).live == old(w).live.insert(id) && final(w).issued == old(w).issued.insert(id),
    { unimplemented!() }
}

pub struct IpcReceiver<T> { pub _p: PhantomData<T> }      // IpcReceiver<()>: the receiving end of the wake-up channel

pub open spec fn fresh_world(w: W) -> bool {
    w.live == Set::<u64>::empty() && w.issued == Set::<u64>::empty() && w.delivered == Seq::<(u64, int)>::empty()
    && w.calls == Seq::<(u64, int)>::empty() && w.credit == 0 && !w.acked
}
impl IpcReceiverSet {
    // IpcReceiverSet::new().  Assumption: creating the epoll instance succeeds (the code unwrap()s it)
    #[verifier::external_body]
    pub fn new(Tracked(w): Tracked<&mut W>) -> (r: Result<IpcReceiverSet, IoError>)
        ensures r is Ok, *final(w) == *old(w)
    { unimplemented!() }
    // add of the wake-up receiver: the id under which wake-ups will be reported.  Assumption: registration succeeds (unwrap()ed)
    #[verifier::external_body]
    pub fn add(&mut self, receiver: IpcReceiver<()>, Tracked(w): Tracked<&mut W>) -> (r: Result<u64, IoError>)
        ensures
            r matches Ok(id) && !old(w).issued.contains(id) && final(w).wakeup == id
                && final(w).live == old(w).live.insert(id) && final(w).issued == old(w).issued.insert(id),
            final(w).delivered == old(w).delivered, final(w).calls == old(w).calls, final(w).credit == old(w).credit,
            final(w).acked == old(w).acked, final(w).handlers_at_ack == old(w).handlers_at_ack,
    { unimplemented!() }
}
impl MsgReceiver {
    // crossbeam Receiver::recv (blocking).  Pairing assumption (proved for the proxy side in add_route /
    // shutdown, which send one RouterMsg per wake-up under one mutex): a reported wake-up is matched by a message.
    #[verifier::external_body]
    pub fn recv(&self, Tracked(w): Tracked<&mut W>) -> (r: Result<RouterMsg, RecvError>)
        ensures
            old(w).credit > 0 ==> r is Ok && final(w).credit == old(w).credit - 1,
            final(w).wakeup == old(w).wakeup, final(w).live == old(w).live, final(w).issued == old(w).issued,
            final(w).calls == old(w).calls, final(w).delivered == old(w).delivered, final(w).acked == old(w).acked,
            final(w).handlers_at_ack == old(w).handlers_at_ack,
    { unimplemented!() }
}
impl MsgReceiver {
    // non-waiting / bounded-wait variants: may come back empty although a message is on its way
    #[verifier::external_body]
    pub fn try_recv(&self, Tracked(w): Tracked<&mut W>) -> (r: Result<RouterMsg, RecvError>)
        ensures
            r is Ok ==> old(w).credit > 0 && final(w).credit == old(w).credit - 1, r is Err ==> final(w).credit == old(w).credit,
            final(w).wakeup == old(w).wakeup, final(w).live == old(w).live, final(w).issued == old(w).issued,
            final(w).calls == old(w).calls, final(w).delivered == old(w).delivered, final(w).acked == old(w).acked,
            final(w).handlers_at_ack == old(w).handlers_at_ack,
    { unimplemented!() }
    #[verifier::external_body]
    pub fn recv_timeout(&self, d: std::time::Duration, Tracked(w): Tracked<&mut W>) -> (r: Result<RouterMsg, RecvError>)
        ensures
            r is Ok ==> old(w).credit > 0 && final(w).credit == old(w).credit - 1, r is Err ==> final(w).credit == old(w).credit,
            final(w).wakeup == old(w).wakeup, final(w).live == old(w).live, final(w).issued == old(w).issued,
            final(w).calls == old(w).calls, final(w).delivered == old(w).delivered, final(w).acked == old(w).acked,
            final(w).handlers_at_ack == old(w).handlers_at_ack,
    { unimplemented!() }
}
impl AckSender {
    // crossbeam Sender<()>::send(()) of the shutdown acknowledgement
    #[verifier::external_body]
    pub fn send(&self, v: (), Tracked(w): Tracked<&mut W>, Ghost(handlers_alive): Ghost<nat>) -> (r: Result<(), SendError>)
        ensures
            r is Ok,   // the proxy is blocked in ack_receiver.recv() under its mutex: the receiving end exists
            final(w).acked, final(w).handlers_at_ack == (if old(w).acked { old(w).handlers_at_ack } else { handlers_alive }),
            final(w).wakeup == old(w).wakeup, final(w).live == old(w).live, final(w).issued == old(w).issued,
            final(w).calls == old(w).calls, final(w).delivered == old(w).delivered, final(w).credit == old(w).credit,
    { unimplemented!() }
}

// D5: self.handlers.get_mut(&id).unwrap()(message)
#[verifier::external_body]
pub fn router_invoke(handlers: &mut HashMap<u64, RouterHandler>, id: u64, message: OpaqueIpcMessage, Tracked(w): Tracked<&mut W>)
    requires
        old(handlers)@.contains_key(id), //@@clause:router.invoke/requires.handler_registered
        !old(w).acked, //@@clause:router.invoke/requires.not_after_shutdown_ack
    ensures
        final(handlers)@.dom() == old(handlers)@.dom(),
        final(w).calls == old(w).calls.push((id, message.mid)),
        final(w).wakeup == old(w).wakeup, final(w).live == old(w).live, final(w).issued == old(w).issued,
        final(w).delivered == old(w).delivered, final(w).credit == old(w).credit, final(w).acked == old(w).acked,
        final(w).handlers_at_ack == old(w).handlers_at_ack,
{ unimplemented!() }

pub proof fn lemma_msgs_push(r: Seq<IpcSelectionResult>, e: IpcSelectionResult)
    ensures msgs(r.push(e)) == (match e { IpcSelectionResult::MessageReceived(id, m) => msgs(r).push((id, m.mid)), IpcSelectionResult::ChannelClosed(_) => msgs(r) }),
            wakeups(r.push(e), 0) >= 0,
{
    assert(r.push(e).drop_last() == r);
}
pub proof fn lemma_wakeups_push(r: Seq<IpcSelectionResult>, e: IpcSelectionResult, wk: u64)
    ensures wakeups(r.push(e), wk) == wakeups(r, wk) + (if e is MessageReceived && ev_id(e) == wk { 1nat } else { 0nat })
{
    assert(r.push(e).drop_last() == r);
}
pub proof fn lemma_routed_push(d: Seq<(u64, int)>, x: (u64, int), wk: u64)
    ensures routed(d.push(x), wk) == (if x.0 != wk { routed(d, wk).push(x) } else { routed(d, wk) })
{
    assert(d.push(x).drop_last() == d);
}
pub proof fn lemma_routed_add(a: Seq<(u64, int)>, b: Seq<(u64, int)>, wk: u64)
    ensures routed(a + b, wk) == routed(a, wk) + routed(b, wk)
    decreases b.len()
{
    if b.len() == 0 {
        assert(a + b =~= a);
        assert(routed(a, wk) + routed(b, wk) =~= routed(a, wk));
    } else {
        lemma_routed_add(a, b.drop_last(), wk);
        assert((a + b).drop_last() =~= a + b.drop_last());
        assert((a + b).last() == b.last());
        if b.last().0 != wk {
            assert(routed(a, wk) + routed(b.drop_last(), wk).push(b.last()) =~= (routed(a, wk) + routed(b.drop_last(), wk)).push(b.last()));
        }
    }
}
pub proof fn lemma_wakeups_le(r: Seq<IpcSelectionResult>, n: int, wk: u64)
    requires 0 <= n <= r.len()
    ensures wakeups(r.subrange(0, n), wk) <= wakeups(r, wk)
    decreases r.len() - n
{
    if n < r.len() {
        lemma_wakeups_le(r, n + 1, wk);
        assert(r.subrange(0, n + 1) =~= r.subrange(0, n).push(r[n]));
        lemma_wakeups_push(r.subrange(0, n), r[n], wk);
    } else {
        assert(r.subrange(0, n) =~= r);
    }
}
pub proof fn lemma_msgs_prefix(r: Seq<IpcSelectionResult>, n: int)
    requires 0 <= n <= r.len()
    ensures msgs(r.subrange(0, n)).len() <= msgs(r).len(),
            msgs(r).subrange(0, msgs(r.subrange(0, n)).len() as int) == msgs(r.subrange(0, n))
    decreases r.len() - n
{
    if n < r.len() {
        lemma_msgs_prefix(r, n + 1);
        assert(r.subrange(0, n + 1) =~= r.subrange(0, n).push(r[n]));
        lemma_msgs_push(r.subrange(0, n), r[n]);
        let a = msgs(r.subrange(0, n));
        let b = msgs(r.subrange(0, n + 1));
        assert(msgs(r).subrange(0, a.len() as int) =~= msgs(r).subrange(0, b.len() as int).subrange(0, a.len() as int));
        assert(b.subrange(0, a.len() as int) =~= a);
    } else {
        assert(r.subrange(0, n) =~= r);
        assert(msgs(r).subrange(0, msgs(r).len() as int) =~= msgs(r));
    }
}
