// ---------------------------------------------------------------------------
// U9 prelude: descriptor ownership on the ERROR PATHS of the one-shot server
// (src/platform/unix/mod.rs 672-755).  Verus does not see drop elaboration, so the
// ledger records which raw descriptors have been handed to an owning (RAII) value:
// a descriptor that is open, was opened by this call and is NOT owned when the
// function returns is leaked.
// ---------------------------------------------------------------------------
#[allow(non_camel_case_types)] pub type socklen_t = u32;
pub const SOCK_SEQPACKET: c_int = 5;
pub const SOCK_FLAGS: c_int = libc::SOCK_CLOEXEC;
pub mod libc_af { pub const AF_UNIX: i32 = 1; }

pub struct L {
    pub open: Set<c_int>,      // open descriptors
    pub owned: Set<c_int>,     // ... that an owning value (OsIpcReceiver, OsIpcOneShotServer, OsIpcSender) will close when dropped
    // rendezvous facts (property C08)
    pub bound: Map<c_int, int>,        // socket -> identity of the filesystem path it is bound to
    pub listening: Set<c_int>,         // sockets with a non-empty listen queue
    pub conn_of: Map<c_int, c_int>,    // accepted connection -> the listening socket it was taken from
    pub lingering: Set<c_int>,         // connections with SO_LINGER set
    pub connected: Map<c_int, int>,    // client socket -> identity of the path it connected to
    pub reads: Seq<c_int>,             // blocking whole-message receives, in order: descriptor read from
    pub got: Option<(c_int, Seq<u8>, Seq<OsOpaqueIpcChannel>, Seq<OsIpcSharedMemory>)>,   // what the latest successful one returned
}
pub open spec fn same_rendezvous(l0: L, l1: L) -> bool {
    l1.bound == l0.bound && l1.listening == l0.listening && l1.conn_of == l0.conn_of && l1.lingering == l0.lingering
    && l1.connected == l0.connected && l1.reads == l0.reads && l1.got == l0.got
}
// path identities: what the string / C string / sockaddr_un denote
pub uninterp spec fn str_path(s: &str) -> int;
pub uninterp spec fn string_path(s: String) -> int;
pub uninterp spec fn ptr_path(p: usize) -> int;
pub uninterp spec fn dir_path(dir: int) -> int;       // path of temp dir `dir`
pub uninterp spec fn parent(path: int) -> int;        // directory a path lives in
pub open spec fn no_new_unowned(l0: L, l1: L) -> bool {
    forall|fd: c_int| #[trigger] l1.open.contains(fd) && !l0.open.contains(fd) ==> l1.owned.contains(fd)
}

#[allow(non_camel_case_types)] pub struct sockaddr { pub _p: () }
#[allow(non_camel_case_types)] pub struct sockaddr_un { pub ghost p: int }   // the path in sun_path
pub struct OsOpaqueIpcChannel { pub fd: c_int }
pub struct OsIpcSharedMemory { pub _p: () }
pub struct OsIpcReceiver { pub fd: std::cell::Cell<c_int> }
#[verifier::external_type_specification]
#[verifier::external_body]
#[verifier::reject_recursive_types(T)]
pub struct ExCell<T: ?Sized>(std::cell::Cell<T>);
pub uninterp spec fn cell_val<T>(c: &std::cell::Cell<T>) -> T;
impl UnixError {
    #[verifier::external_body]
    pub fn last() -> (r: UnixError) ensures r is Errno { unimplemented!() }
}
impl OsIpcReceiver {
    // OsIpcReceiver { fd: Cell::new(fd) }: from here on the receiver's Drop closes the descriptor
    #[verifier::external_body]
    pub fn from_fd(fd: c_int, Tracked(l): Tracked<&mut L>) -> (r: OsIpcReceiver)
        ensures cell_val(&r.fd) == fd, final(l).open == old(l).open, final(l).owned == old(l).owned.insert(fd), same_rendezvous(*old(l), *final(l))
    { unimplemented!() }
    // blocking whole-message recv on the accepted connection (unit U3): logs which descriptor was read and what came back
    #[verifier::external_body]
    pub fn recv(&self, Tracked(l): Tracked<&mut L>) -> (r: Result<(Vec<u8>, Vec<OsOpaqueIpcChannel>, Vec<OsIpcSharedMemory>), UnixError>)
        ensures
            final(l).open == old(l).open, final(l).owned == old(l).owned,
            final(l).bound == old(l).bound, final(l).listening == old(l).listening, final(l).conn_of == old(l).conn_of,
            final(l).lingering == old(l).lingering, final(l).connected == old(l).connected,
            final(l).reads == old(l).reads.push(cell_val(&self.fd)),
            r matches Ok(t) ==> final(l).got == Some((cell_val(&self.fd), t.0@, t.1@, t.2@)),
            r is Err ==> final(l).got == old(l).got,
    { unimplemented!() }
}
impl OsIpcSender {
    // OsIpcSender { fd: Arc::new(SharedFileDescriptor(fd)) }: from here on the last clone's Drop closes the descriptor
    #[verifier::external_body]
    pub fn from_fd(fd: c_int, Tracked(l): Tracked<&mut L>) -> (r: OsIpcSender)
        ensures r.fd == fd, final(l).open == old(l).open, final(l).owned == old(l).owned.insert(fd), same_rendezvous(*old(l), *final(l))
    { unimplemented!() }
}
// setsockopt(SO_LINGER): may fail
#[verifier::external_body]
pub fn make_socket_lingering(sockfd: c_int, Tracked(l): Tracked<&mut L>) -> (r: Result<(), UnixError>)
    ensures
        final(l).open == old(l).open, final(l).owned == old(l).owned,
        final(l).bound == old(l).bound, final(l).listening == old(l).listening, final(l).conn_of == old(l).conn_of,
        final(l).connected == old(l).connected, final(l).reads == old(l).reads, final(l).got == old(l).got,
        r is Ok ==> final(l).lingering == old(l).lingering.insert(sockfd), r is Err ==> final(l).lingering == old(l).lingering,
{ unimplemented!() }

// libc::accept4(fd, NULL, NULL, flags)
#[verifier::external_body]
pub fn k_accept4(fd: c_int, flags: c_int, Tracked(l): Tracked<&mut L>) -> (r: c_int)
    requires flags & libc::SOCK_CLOEXEC != 0, //@@clause:unix.accept/requires.accepted_descriptor_is_close_on_exec
             old(l).listening.contains(fd), //@@clause:unix.accept/requires.accepts_on_a_listening_socket
    ensures r >= 0 ==> !old(l).open.contains(r) && final(l).open == old(l).open.insert(r) && final(l).owned == old(l).owned
                && final(l).conn_of == old(l).conn_of.insert(r, fd) && final(l).bound == old(l).bound && final(l).listening == old(l).listening
                && final(l).lingering == old(l).lingering && final(l).connected == old(l).connected && final(l).reads == old(l).reads && final(l).got == old(l).got,
            r < 0 ==> *final(l) == *old(l)
{ unimplemented!() }
// libc::socket(AF_UNIX, ty, 0)
#[verifier::external_body]
pub fn k_socket(domain: c_int, ty: c_int, protocol: c_int, Tracked(l): Tracked<&mut L>) -> (r: c_int)
    requires ty & libc::SOCK_CLOEXEC != 0, //@@clause:unix.server_new/requires.socket_is_close_on_exec
    ensures r >= 0 ==> !old(l).open.contains(r) && final(l).open == old(l).open.insert(r) && final(l).owned == old(l).owned && same_rendezvous(*old(l), *final(l))
                && !old(l).bound.contains_key(r) && !old(l).listening.contains(r) && !old(l).connected.contains_key(r),
            r < 0 ==> *final(l) == *old(l)
{ unimplemented!() }
#[verifier::external_body]
pub fn k_close(fd: c_int, Tracked(l): Tracked<&mut L>) -> (r: c_int)
    requires old(l).open.contains(fd) && !old(l).owned.contains(fd), //@@clause:unix.server/requires.close_only_raw_open_descriptors
    ensures final(l).open == old(l).open.remove(fd), final(l).owned == old(l).owned,
            final(l).bound == old(l).bound.remove(fd), final(l).listening == old(l).listening.remove(fd), final(l).connected == old(l).connected.remove(fd),
            final(l).conn_of == old(l).conn_of, final(l).lingering == old(l).lingering, final(l).reads == old(l).reads, final(l).got == old(l).got,
{ unimplemented!() }
// libc::bind(fd, &sockaddr, len): may fail; on success the socket is bound to the path in sun_path
// libc::close(fd) issued by an owner's Drop: the descriptor leaves both sets; closing an open descriptor succeeds
#[verifier::external_body]
pub fn k_close_owned(fd: c_int, Tracked(l): Tracked<&mut L>) -> (r: c_int)
    requires old(l).open.contains(fd) && old(l).owned.contains(fd), //@@clause:unix.server_drop/requires.closes_only_its_own_open_descriptor
    ensures r == 0, final(l).open == old(l).open.remove(fd), final(l).owned == old(l).owned.remove(fd),
            final(l).bound == old(l).bound.remove(fd), final(l).listening == old(l).listening.remove(fd), final(l).connected == old(l).connected.remove(fd),
            final(l).conn_of == old(l).conn_of, final(l).lingering == old(l).lingering, final(l).reads == old(l).reads, final(l).got == old(l).got,
{ unimplemented!() }
pub mod thread { use super::*; #[verifier::external_body] pub fn panicking() -> bool { unimplemented!() } }
#[verifier::external_body]
pub fn k_bind(fd: c_int, addr: &sockaddr_un, len: usize, Tracked(l): Tracked<&mut L>) -> (r: c_int)
    ensures final(l).open == old(l).open, final(l).owned == old(l).owned,
            final(l).listening == old(l).listening, final(l).conn_of == old(l).conn_of, final(l).lingering == old(l).lingering,
            final(l).connected == old(l).connected, final(l).reads == old(l).reads, final(l).got == old(l).got,
            r == 0 ==> final(l).bound == old(l).bound.insert(fd, addr.p), r != 0 ==> final(l).bound == old(l).bound,
{ unimplemented!() }
// libc::listen(fd, backlog): may fail
#[verifier::external_body]
pub fn k_listen(fd: c_int, backlog: c_int, Tracked(l): Tracked<&mut L>) -> (r: c_int)
    requires backlog >= 1, //@@clause:unix.server_new/requires.listen_queue_holds_a_client_that_connects_before_accept
             old(l).bound.contains_key(fd), //@@clause:unix.server_new/requires.listens_on_the_bound_socket
    ensures final(l).open == old(l).open, final(l).owned == old(l).owned,
            final(l).bound == old(l).bound, final(l).conn_of == old(l).conn_of, final(l).lingering == old(l).lingering,
            final(l).connected == old(l).connected, final(l).reads == old(l).reads, final(l).got == old(l).got,
            r == 0 ==> final(l).listening == old(l).listening.insert(fd), r != 0 ==> final(l).listening == old(l).listening,
{ unimplemented!() }
// libc::connect(fd, &sockaddr, len): may fail
#[verifier::external_body]
pub fn k_connect(fd: c_int, addr: &sockaddr_un, len: usize, Tracked(l): Tracked<&mut L>) -> (r: c_int)
    ensures final(l).open == old(l).open, final(l).owned == old(l).owned,
            final(l).bound == old(l).bound, final(l).listening == old(l).listening, final(l).conn_of == old(l).conn_of, final(l).lingering == old(l).lingering,
            final(l).reads == old(l).reads, final(l).got == old(l).got,
            r >= 0 ==> final(l).connected == old(l).connected.insert(fd, addr.p), r < 0 ==> final(l).connected == old(l).connected,
{ unimplemented!() }

// tempfile / path / CString plumbing of OsIpcOneShotServer::new: opaque values
pub struct TempDir { pub ghost id: int }      // tempfile::TempDir: a fresh directory, removed (with its contents) by its Drop
pub struct PathBuf { pub ghost p: int }
pub struct CString { pub ghost p: int }
pub struct Builder { pub _p: () }
impl Builder {
    #[verifier::external_body] pub fn new() -> Builder { unimplemented!() }
    // mkdtemp; the `?` converts io::Error into UnixError
    #[verifier::external_body] pub fn tempdir(&self) -> (r: Result<TempDir, UnixError>) { unimplemented!() }
}
impl TempDir { #[verifier::external_body] pub fn path(&self) -> (r: PathBuf) ensures r.p == dir_path(self.id) { unimplemented!() } }
impl PathBuf {
    #[verifier::external_body] pub fn join(&self, s: &str) -> (r: PathBuf) ensures parent(r.p) == self.p { unimplemented!() }
    #[verifier::external_body] pub fn to_str(&self) -> (r: Option<&str>) ensures r matches Some(s) && str_path(s) == self.p { unimplemented!() }
}
impl CString {
    #[verifier::external_body] pub fn new(s: &str) -> (r: Result<CString, ()>) ensures r matches Ok(c) && c.p == str_path(s) { unimplemented!() }
    #[verifier::external_body] pub fn from_string(s: String) -> (r: Result<CString, ()>) ensures r matches Ok(c) && c.p == string_path(s) { unimplemented!() }
    #[verifier::external_body] pub fn as_ptr(&self) -> (r: usize) ensures ptr_path(r) == self.p { unimplemented!() }
}
// strncpy into sun_path (bounds: Kani harness ffi_new_sockaddr_un); paths longer than sun_path are not modelled
#[verifier::external_body]
pub fn new_sockaddr_un(path: usize) -> (r: (sockaddr_un, usize)) ensures r.0.p == ptr_path(path) { unimplemented!() }
#[verifier::external_body]
pub fn str_to_string(s: &str) -> (r: String) ensures string_path(r) == str_path(s) { unimplemented!() }

pub struct OsIpcOneShotServer { pub fd: c_int, pub _temp_dir: TempDir }
pub struct OsIpcSender { pub fd: c_int }
// the struct literal: from here on OsIpcOneShotServer's Drop closes the descriptor (and TempDir's Drop removes the directory)
#[verifier::external_body]
pub fn mk_server(fd: c_int, temp_dir: TempDir, Tracked(l): Tracked<&mut L>) -> (r: OsIpcOneShotServer)
    ensures r.fd == fd, r._temp_dir == temp_dir, final(l).open == old(l).open, final(l).owned == old(l).owned.insert(fd), same_rendezvous(*old(l), *final(l))
{ unimplemented!() }

pub proof fn lemma_cloexec_bit()
    ensures forall|x: i32| #[trigger] ((x | 0o2000000i32) & 0o2000000i32) != 0,
            libc::SOCK_CLOEXEC == 0o2000000i32, SOCK_FLAGS == 0o2000000i32
{
    assert forall|x: i32| #[trigger] ((x | 0o2000000i32) & 0o2000000i32) != 0 by {
        assert(((x | 0o2000000i32) & 0o2000000i32) != 0) by (bit_vector);
    }
}

#[derive(Copy, Clone)]
pub enum BlockingMode { Blocking, Nonblocking, Timeout(std::time::Duration) }
// the free function unix::recv on a raw descriptor (unit U3)
#[verifier::external_body]
pub fn recv(fd: c_int, blocking_mode: BlockingMode, Tracked(l): Tracked<&mut L>) -> (r: Result<(Vec<u8>, Vec<OsOpaqueIpcChannel>, Vec<OsIpcSharedMemory>), UnixError>)
    requires blocking_mode is Blocking, //@@clause:unix.accept/requires.first_message_awaited_blocking
    ensures
        final(l).open == old(l).open, final(l).owned == old(l).owned,
        final(l).bound == old(l).bound, final(l).listening == old(l).listening, final(l).conn_of == old(l).conn_of,
        final(l).lingering == old(l).lingering, final(l).connected == old(l).connected,
        final(l).reads == old(l).reads.push(fd),
        r matches Ok(t) ==> final(l).got == Some((fd, t.0@, t.1@, t.2@)),
        r is Err ==> final(l).got == old(l).got,
{ unimplemented!() }
