// ---------------------------------------------------------------------------
// U9 prelude: descriptor ownership on the ERROR PATHS of the one-shot server
// (src/platform/unix/mod.rs 672-755).  Verus does not see drop elaboration, so the
// ledger records which raw descriptors have been handed to an owning (RAII) value:
// a descriptor that is open, was opened by this call and is NOT owned when the
// function returns is leaked.
// ---------------------------------------------------------------------------
#[allow(non_camel_case_types)] pub type socklen_t = u32;
pub const SOCK_SEQPACKET: c_int = 5;
pub const SOCK_FLAGS: c_int = libc::SOCK_CLOEXEC;
pub mod libc_af { pub const AF_UNIX: i32 = 1; }

pub struct L {
    pub open: Set<c_int>,      // open descriptors
    pub owned: Set<c_int>,     // ... that an owning value (OsIpcReceiver, OsIpcOneShotServer) will close when dropped
}
pub open spec fn no_new_unowned(l0: L, l1: L) -> bool {
    forall|fd: c_int| #[trigger] l1.open.contains(fd) && !l0.open.contains(fd) ==> l1.owned.contains(fd)
}

#[allow(non_camel_case_types)] pub struct sockaddr { pub _p: () }
#[allow(non_camel_case_types)] pub struct sockaddr_un { pub _p: () }
pub struct OsOpaqueIpcChannel { pub fd: c_int }
pub struct OsIpcSharedMemory { pub _p: () }
pub struct OsIpcReceiver { pub fd: std::cell::Cell<c_int> }
#[verifier::external_type_specification]
#[verifier::external_body]
#[verifier::reject_recursive_types(T)]
pub struct ExCell<T: ?Sized>(std::cell::Cell<T>);
pub uninterp spec fn cell_val<T>(c: &std::cell::Cell<T>) -> T;
impl UnixError {
    #[verifier::external_body]
    pub fn last() -> (r: UnixError) ensures r is Errno { unimplemented!() }
}
impl OsIpcReceiver {
    // OsIpcReceiver { fd: Cell::new(fd) }: from here on the receiver's Drop closes the descriptor
    #[verifier::external_body]
    pub fn from_fd(fd: c_int, Tracked(l): Tracked<&mut L>) -> (r: OsIpcReceiver)
        ensures cell_val(&r.fd) == fd, final(l).open == old(l).open, final(l).owned == old(l).owned.insert(fd)
    { unimplemented!() }
    // blocking recv on the accepted connection (unit U3)
    #[verifier::external_body]
    pub fn recv(&self) -> (r: Result<(Vec<u8>, Vec<OsOpaqueIpcChannel>, Vec<OsIpcSharedMemory>), UnixError>) { unimplemented!() }
}
// setsockopt(SO_LINGER): may fail
#[verifier::external_body]
pub fn make_socket_lingering(sockfd: c_int) -> (r: Result<(), UnixError>) { unimplemented!() }

// libc::accept4(fd, NULL, NULL, flags)
#[verifier::external_body]
pub fn k_accept4(fd: c_int, flags: c_int, Tracked(l): Tracked<&mut L>) -> (r: c_int)
    requires flags & libc::SOCK_CLOEXEC != 0, //@@clause:unix.accept/requires.accepted_descriptor_is_close_on_exec
    ensures r >= 0 ==> !old(l).open.contains(r) && final(l).open == old(l).open.insert(r) && final(l).owned == old(l).owned,
            r < 0 ==> *final(l) == *old(l)
{ unimplemented!() }
// libc::socket(AF_UNIX, ty, 0)
#[verifier::external_body]
pub fn k_socket(domain: c_int, ty: c_int, protocol: c_int, Tracked(l): Tracked<&mut L>) -> (r: c_int)
    requires ty & libc::SOCK_CLOEXEC != 0, //@@clause:unix.server_new/requires.socket_is_close_on_exec
    ensures r >= 0 ==> !old(l).open.contains(r) && final(l).open == old(l).open.insert(r) && final(l).owned == old(l).owned,
            r < 0 ==> *final(l) == *old(l)
{ unimplemented!() }
#[verifier::external_body]
pub fn k_close(fd: c_int, Tracked(l): Tracked<&mut L>) -> (r: c_int)
    requires old(l).open.contains(fd) && !old(l).owned.contains(fd), //@@clause:unix.server/requires.close_only_raw_open_descriptors
    ensures final(l).open == old(l).open.remove(fd), final(l).owned == old(l).owned
{ unimplemented!() }
#[verifier::external_body]
pub fn k_bind(fd: c_int) -> (r: c_int) { unimplemented!() }
#[verifier::external_body]
pub fn k_listen(fd: c_int, backlog: c_int) -> (r: c_int) { unimplemented!() }

// tempfile / path / CString plumbing of OsIpcOneShotServer::new: opaque values
pub struct TempDir { pub _p: () }
pub struct PathBuf { pub _p: () }
pub struct CString { pub _p: () }
pub struct Builder { pub _p: () }
impl Builder {
    #[verifier::external_body] pub fn new() -> Builder { unimplemented!() }
    // mkdtemp; the `?` converts io::Error into UnixError
    #[verifier::external_body] pub fn tempdir(&self) -> (r: Result<TempDir, UnixError>) { unimplemented!() }
}
impl TempDir { #[verifier::external_body] pub fn path(&self) -> (r: PathBuf) { unimplemented!() } }
impl PathBuf {
    #[verifier::external_body] pub fn join(&self, s: &str) -> (r: PathBuf) { unimplemented!() }
    #[verifier::external_body] pub fn to_str(&self) -> (r: Option<&str>) ensures r is Some { unimplemented!() }
}
impl CString {
    #[verifier::external_body] pub fn new(s: &str) -> (r: Result<CString, ()>) ensures r is Ok { unimplemented!() }
    #[verifier::external_body] pub fn as_ptr(&self) -> (r: usize) { unimplemented!() }
}
#[verifier::external_body]
pub fn new_sockaddr_un(path: usize) -> (r: (sockaddr_un, usize)) { unimplemented!() }
#[verifier::external_body]
pub fn str_to_string(s: &str) -> (r: String) { unimplemented!() }

pub struct OsIpcOneShotServer { pub fd: c_int, pub _temp_dir: TempDir }
// the struct literal: from here on OsIpcOneShotServer's Drop closes the descriptor
#[verifier::external_body]
pub fn mk_server(fd: c_int, temp_dir: TempDir, Tracked(l): Tracked<&mut L>) -> (r: OsIpcOneShotServer)
    ensures r.fd == fd, final(l).open == old(l).open, final(l).owned == old(l).owned.insert(fd)
{ unimplemented!() }

pub proof fn lemma_cloexec_bit()
    ensures forall|x: i32| #[trigger] ((x | 0o2000000i32) & 0o2000000i32) != 0,
            libc::SOCK_CLOEXEC == 0o2000000i32, SOCK_FLAGS == 0o2000000i32
{
    assert forall|x: i32| #[trigger] ((x | 0o2000000i32) & 0o2000000i32) != 0 by {
        assert(((x | 0o2000000i32) & 0o2000000i32) != 0) by (bit_vector);
    }
}

#[derive(Copy, Clone)]
pub enum BlockingMode { Blocking, Nonblocking, Timeout(std::time::Duration) }
// the free function unix::recv on a raw descriptor (unit U3)
#[verifier::external_body]
pub fn recv(fd: c_int, blocking_mode: BlockingMode) -> (r: Result<(Vec<u8>, Vec<OsOpaqueIpcChannel>, Vec<OsIpcSharedMemory>), UnixError>) { unimplemented!() }
