// ---------------------------------------------------------------------------
// U14 prelude: OsIpcReceiver::{recv, try_recv, try_recv_timeout} (src/platform/unix/mod.rs):
// which descriptor and which blocking mode reach unix::recv (unit U3 / K4).
// ---------------------------------------------------------------------------
pub use std::time::Duration;
#[derive(Copy, Clone)]
pub enum BlockingMode { Blocking, Nonblocking, Timeout(Duration) }
pub struct OsOpaqueIpcChannel { pub fd: c_int }
pub struct OsIpcSharedMemory { pub _p: () }
pub struct OsIpcReceiver { pub fd: std::cell::Cell<c_int> }
#[verifier::external_type_specification]
#[verifier::external_body]
#[verifier::reject_recursive_types(T)]
pub struct ExCell<T: ?Sized>(std::cell::Cell<T>);
pub uninterp spec fn cell_val<T>(c: &std::cell::Cell<T>) -> T;
pub assume_specification<T: Copy> [std::cell::Cell::<T>::get] (c: &std::cell::Cell<T>) -> (r: T)
    ensures r == cell_val(c);
pub struct RxLog { pub calls: Seq<(c_int, BlockingMode)>, pub results: Seq<int> }   // every unix::recv issued: (descriptor, mode); result identities
pub uninterp spec fn result_id(r: Result<(Vec<u8>, Vec<OsOpaqueIpcChannel>, Vec<OsIpcSharedMemory>), UnixError>) -> int;
// unix::recv (units U3 / K4)
#[verifier::external_body]
pub fn recv(fd: c_int, blocking_mode: BlockingMode, Tracked(g): Tracked<&mut RxLog>) -> (r: Result<(Vec<u8>, Vec<OsOpaqueIpcChannel>, Vec<OsIpcSharedMemory>), UnixError>)
    ensures final(g).calls == old(g).calls.push((fd, blocking_mode)), final(g).results == old(g).results.push(result_id(r))
{ unimplemented!() }
pub assume_specification [std::time::Duration::from_millis] (ms: u64) -> std::time::Duration;
pub assume_specification [std::time::Duration::from_secs] (s: u64) -> std::time::Duration;
