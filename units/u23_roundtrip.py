"""U23 - composition lemmas over the contracts of U2 (send) and U3 (recv).  Pure proofs:
what send guarantees is what recv requires, and what recv returns is what send was given."""
from vf.gen import Unit

POST = r'''
pub open spec fn all_in(fds: Seq<c_int>, s: Set<c_int>) -> bool { forall|i: int| 0 <= i < fds.len() ==> s.contains(#[trigger] fds[i]) }
pub open spec fn none_in(fds: Seq<c_int>, s: Set<c_int>) -> bool { forall|i: int| 0 <= i < fds.len() ==> !s.contains(#[trigger] fds[i]) }

pub proof fn lemma_split_all_in(a: Seq<c_int>, s: Set<c_int>)
    requires all_in(a, s)
    ensures socks(a, s) == a, nonsocks(a, s) == Seq::<c_int>::empty()
    decreases a.len()
{
    if a.len() > 0 {
        lemma_split_all_in(a.drop_last(), s);
        assert(a.drop_last().push(a.last()) =~= a);
    }
}
pub proof fn lemma_split_none_in(a: Seq<c_int>, s: Set<c_int>)
    requires none_in(a, s)
    ensures nonsocks(a, s) == a, socks(a, s) == Seq::<c_int>::empty()
    decreases a.len()
{
    if a.len() > 0 {
        lemma_split_none_in(a.drop_last(), s);
        assert(a.drop_last().push(a.last()) =~= a);
    }
}
pub proof fn lemma_split_concat(a: Seq<c_int>, b: Seq<c_int>, s: Set<c_int>)
    ensures socks(a + b, s) == socks(a, s) + socks(b, s), nonsocks(a + b, s) == nonsocks(a, s) + nonsocks(b, s)
    decreases b.len()
{
    if b.len() == 0 {
        assert(a + b =~= a);
        assert(socks(a, s) + socks(b, s) =~= socks(a, s));
        assert(nonsocks(a, s) + nonsocks(b, s) =~= nonsocks(a, s));
    } else {
        lemma_split_concat(a, b.drop_last(), s);
        assert((a + b).drop_last() =~= a + b.drop_last());
        assert((a + b).last() == b.last());
        if s.contains(b.last()) {
            assert(socks(a, s) + socks(b.drop_last(), s).push(b.last()) =~= (socks(a, s) + socks(b.drop_last(), s)).push(b.last()));
            assert(nonsocks(b, s) == nonsocks(b.drop_last(), s));
        } else {
            assert(nonsocks(a, s) + nonsocks(b.drop_last(), s).push(b.last()) =~= (nonsocks(a, s) + nonsocks(b.drop_last(), s)).push(b.last()));
            assert(socks(b, s) == socks(b.drop_last(), s));
        }
    }
}

// C01 C02 C04 C05 C13: for every payload, every SYSTEM_SENDBUF_SIZE >= 48, every attachment list and every
// ENOBUFS pattern, the kernel state a successful OsIpcSender::send leaves (U2 postcondition) satisfies
// unix::recv's precondition (U3), is a *complete* emission, denotes exactly the bytes passed to send, and
// splits into exactly the channels (in order) and regions (in order) passed to send.
pub proof fn lemma_send_then_recv(k0: K, k1: K, tx: c_int, data: Seq<u8>, chans: Seq<c_int>, regions: Seq<c_int>)
    requires
        48 <= sys_sendbuf() <= isize::MAX, data.len() <= isize::MAX,
        k0.peer.dom().contains(tx), k0.q.dom().contains(k0.peer[tx]),
        k0.q[k0.peer[tx]].len() == 0,            // the message is at the head (earlier ones already received)
        send_ok_post(k0, k1, tx, data, chans + regions),
        all_in(chans, k1.sock), none_in(regions, k1.sock),   // fstat at the receiver: channels are sockets, regions are not
    ensures
        head_ok(k1, k0.peer[tx]), //@@clause:roundtrip/ensures.send_post_implies_recv_pre
        heads_ok(k1, k1.q, k0.peer[tx], k1.q[k0.peer[tx]].len()), //@@clause:roundtrip/ensures.send_post_implies_recv_pre
        head_complete(k1, k0.peer[tx]), //@@clause:roundtrip/ensures.emission_complete
        head_payload(k1, k0.peer[tx]) == data, //@@clause:roundtrip/ensures.payload_is_what_was_sent
        ({ let p = k1.q[k0.peer[tx]].first();
           nonsocks(p.fds, k1.sock) == regions
           && (if p.data.len() == p.hdr->Some_0 { socks(p.fds, k1.sock) == chans } else { socks(p.fds, k1.sock).drop_last() == chans }) }), //@@clause:roundtrip/ensures.attachments_in_order
{
    let mrx = k0.peer[tx];
    let mq = k1.q[mrx];
    assert(mq == k0.q[mrx].push(mq.last()));
    assert(mq.len() == 1);
    let p = mq.first();
    assert(p == mq.last());
    if p.data.len() == data.len() {
        lemma_split_concat(chans, regions, k1.sock);
        lemma_split_all_in(chans, k1.sock);
        lemma_split_none_in(regions, k1.sock);
        assert(socks(chans, k1.sock) + socks(regions, k1.sock) =~= chans);
        assert(nonsocks(chans, k1.sock) + nonsocks(regions, k1.sock) =~= regions);
    } else {
        let ded = p.fds.last();
        assert(p.fds == (chans + regions).push(ded));
        assert(!k0.q.dom().contains(ded));
        assert(mrx != ded);
        assert(k1.q.dom().contains(ded));
        lemma_socks_push(chans + regions, ded, k1.sock);
        lemma_split_concat(chans, regions, k1.sock);
        lemma_split_all_in(chans, k1.sock);
        lemma_split_none_in(regions, k1.sock);
        assert(socks(chans, k1.sock) + socks(regions, k1.sock) =~= chans);
        assert(nonsocks(chans, k1.sock) + nonsocks(regions, k1.sock) =~= regions);
        assert(chans.push(ded).drop_last() =~= chans);
        assert((p.data + flat(k1.q[ded])).len() == data.len());
        //@@CANARY
    }
    assert(with_q(k1, k1.q) == k1);
    assert(heads_ok(k1, after_head(k1.q, mrx), mrx, 0));
    //@@CANARY
}

// C02: a later send on ANY sender of ANY channel leaves a queued emission intact: it appends one packet
// to its own shared socket and writes follow-ups only to a socket that did not exist before.
pub proof fn lemma_other_send_preserves_head(k1: K, k2: K, rx: c_int, tx2: c_int, data2: Seq<u8>, fds2: Seq<c_int>)
    requires
        k1.q.dom().contains(rx), k1.q[rx].len() > 0, head_ok(k1, rx),
        k1.peer.dom().contains(tx2), k1.q.dom().contains(k1.peer[tx2]),
        send_ok_post(k1, k2, tx2, data2, fds2) || send_err_post(k1, k2, tx2, data2),
        k1.sock.subset_of(k2.sock),
        // the dedicated sender of a queued emission never leaves the send call that created it, so tx2 is not it
        k1.q[rx].first().data.len() != k1.q[rx].first().hdr->Some_0 ==> k1.q[rx].first().fds.last() != k1.peer[tx2],
    ensures
        k2.q[rx].len() > 0 && k2.q[rx].first() == k1.q[rx].first(), //@@clause:roundtrip/ensures.fifo_head_unchanged_by_other_sends
        head_ok(k2, rx), //@@clause:roundtrip/ensures.emission_unchanged_by_other_sends
        head_complete(k1, rx) ==> head_complete(k2, rx) && head_payload(k2, rx) == head_payload(k1, rx), //@@clause:roundtrip/ensures.no_mixing
{
    let mrx2 = k1.peer[tx2];
    let p = k1.q[rx].first();
    if rx == mrx2 {
        if k2.q[rx] != k1.q[rx] {
            assert(k2.q[rx] == k1.q[rx].push(k2.q[rx].last()));
            assert(k2.q[rx].first() == k1.q[rx].first());
        }
    } else {
        assert(k2.q[rx] == k1.q[rx]);
    }
    if p.data.len() != p.hdr->Some_0 {
        let ded = p.fds.last();
        assert(k1.q.dom().contains(ded));
        assert(k2.q[ded] == k1.q[ded]);
        //@@CANARY
    }
    //@@CANARY
}
'''

UNIT = Unit(
    name="u23_roundtrip",
    prelude=["units/common.rs", "units/unix_types.rs", "units/u2_send.rs", "units/u3_recv.rs"],
    groups=[],
    props=["C01", "C02", "C04", "C05", "C13"],
    post=POST,
    prelude_clauses={
        "roundtrip/ensures.send_post_implies_recv_pre": ["C01", "C02", "C13"],
        "roundtrip/ensures.emission_complete": ["C01", "C13"],
        "roundtrip/ensures.payload_is_what_was_sent": ["C01", "C13"],
        "roundtrip/ensures.attachments_in_order": ["C04", "C05", "C13"],
        "roundtrip/ensures.fifo_head_unchanged_by_other_sends": ["C02"],
        "roundtrip/ensures.emission_unchanged_by_other_sends": ["C02"],
        "roundtrip/ensures.no_mixing": ["C02"],
    },
    kernel_clauses=[
        "no sender handle for a per-message dedicated socket exists outside the send call that created it (hypothesis of lemma_other_send_preserves_head)",
    ],
)
