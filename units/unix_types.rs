// ---------------------------------------------------------------------------
// Stand-ins for the unix transport's types (field names as in the repository,
// src/platform/unix/mod.rs) and std specs vstd lacks.  Trusted text.
// ---------------------------------------------------------------------------

// std::cell::Cell: interior mutability has no functional spec.  Reads return an
// uninterpreted function of the cell; no function verified by Verus calls Cell::set
// (the extractor refuses `.set(`; consume_fd, the only setter, is checked by Kani).
#[verifier::external_type_specification]
#[verifier::external_body]
#[verifier::reject_recursive_types(T)]
pub struct ExCell<T: ?Sized>(std::cell::Cell<T>);
pub uninterp spec fn cell_val<T>(c: &std::cell::Cell<T>) -> T;
pub assume_specification<T: Copy> [std::cell::Cell::<T>::get] (c: &std::cell::Cell<T>) -> (r: T)
    ensures r == cell_val(c);
pub assume_specification<T> [std::cell::Cell::<T>::new] (v: T) -> (r: std::cell::Cell<T>)
    ensures cell_val(&r) == v;
pub assume_specification<T> [std::mem::replace] (dest: &mut T, src: T) -> (r: T)
    ensures r == *old(dest), *final(dest) == src;

// `nosync_marker: PhantomData<Cell<()>>` of OsIpcSender omitted
pub struct SharedFileDescriptor(pub c_int);
pub struct OsIpcSender { pub fd: std::sync::Arc<SharedFileDescriptor> }
pub struct OsIpcReceiver { pub fd: std::cell::Cell<c_int> }
pub struct OsOpaqueIpcChannel { pub fd: c_int }
pub struct BackingStore { pub fd: c_int }
impl BackingStore { pub fn fd(&self) -> (r: c_int) ensures r == self.fd { self.fd } }
// `ptr`, `length` omitted (unit U8)
pub struct OsIpcSharedMemory { pub ptr: *mut u8, pub length: usize, pub store: BackingStore }   // same fields as the repository's (ptr is null for a zero-length region)
impl OsIpcSharedMemory {
    // unsafe fn from_fd: BackingStore::from_fd + map_file(None) (fstat, mmap) - unit U8
    #[verifier::external_body]
    pub fn from_fd(fd: c_int) -> (r: OsIpcSharedMemory) ensures r.store.fd == fd { unimplemented!() }
}
pub enum OsIpcChannel { Sender(OsIpcSender), Receiver(OsIpcReceiver) }
impl OsIpcChannel {
    pub open spec fn spec_fd(&self) -> c_int {
        match *self { OsIpcChannel::Sender(s) => s.fd.0, OsIpcChannel::Receiver(r) => cell_val(&r.fd) }
    }
}
pub open spec fn chan_fds(c: Seq<OsIpcChannel>) -> Seq<c_int> { c.map(|i: int, x: OsIpcChannel| x.spec_fd()) }
pub open spec fn region_fds(c: Seq<OsIpcSharedMemory>) -> Seq<c_int> { c.map(|i: int, x: OsIpcSharedMemory| x.store.fd) }
pub open spec fn opaque_fds(c: Seq<OsOpaqueIpcChannel>) -> Seq<c_int> { c.map(|i: int, x: OsOpaqueIpcChannel| x.fd) }

impl UnixError {
    // io::Error::last_os_error(): some errno
    #[verifier::external_body]
    pub fn last() -> (r: UnixError) ensures r is Errno { unimplemented!() }
}

// <*mut T>::is_null (same assumed specification as in unit U8)
pub assume_specification<T: std::marker::PointeeSized> [<*mut T>::is_null] (p: *mut T) -> (r: bool)
    ensures r == (p@.addr == 0);
