"""U10 - src/ipc.rs: IpcOneShotServer::{new, accept}, IpcSender::connect (thin wrappers over the platform layer).  Verus."""
from vf.gen import Unit, Fn, Clause, Hint, Rule, AppendArg, CtorClosure

F = "src/ipc.rs"
OG = "Tracked(&mut *o)"
TO = "Tracked(o): Tracked<&mut O>"
SRV = "impl<T> IpcOneShotServer<T> where T: for<'de> Deserialize<'de> + Serialize,"
SND = "impl<T> IpcSender<T> where T: Serialize,"

server_new = Fn(F, [SRV, "new"], ret="r", extra_params=TO,
    ensures=[
        Clause("ipc.IpcOneShotServer.new/ensures.wraps_the_platform_server_and_hands_out_its_name",
               "r matches Ok((srv, name)) ==> final(o).created == Some((srv.os_server.sid, name@))", ["C08"]),
        Clause("ipc.IpcOneShotServer.new/ensures.frame", "final(o).accepted == old(o).accepted && final(o).connected == old(o).connected && final(o).decodes == old(o).decodes"),
    ],
    rules=[AppendArg("B70", r"OsIpcOneShotServer::new\(", OG, "platform one-shot server (unit U9) with the `?` conversion folded in", min_count=1)],
    safety_props=["C08"])

accept = Fn(F, [SRV, "accept"], ret="r", extra_params=TO,
    ensures=[
        Clause("ipc.IpcOneShotServer.accept/ensures.receiver_is_the_accepted_connection",
               "r matches Ok((rx, _)) ==> final(o).accepted is Some && (final(o).accepted->0).0 == self.os_server.sid && (final(o).accepted->0).1 == rx.os_receiver.rid", ["C08"]),
        Clause("ipc.IpcOneShotServer.accept/ensures.value_is_decoded_from_exactly_the_first_message",
               "r matches Ok((_, v)) ==> final(o).decodes == old(o).decodes + 1\n"
               "&& value_src(v) == ((final(o).accepted->0).2, wrapped((final(o).accepted->0).3), wrapped((final(o).accepted->0).4))", ["C08", "C04", "C05"]),
        Clause("ipc.IpcOneShotServer.accept/ensures.frame", "final(o).created == old(o).created && final(o).connected == old(o).connected"),
    ],
    rules=[
        AppendArg("B71", r"self\.os_server\.accept\(", OG, "platform accept (unit U9) with the `?` conversion folded in", min_count=1),
        Rule("D29", r"(\w+)\s*\.into_iter\(\)\s*\.map\(Some\)\s*\.collect\(\)", r"wrap_some(\1)", "iterator adapter chain -> stub stating exactly the element-wise wrap"),
        AppendArg("B72", r"\.to\(", OG, "OpaqueIpcMessage::to (unit U7) as a stub that records what was decoded", min_count=1),
    ],
    safety_props=["C08"])

msg_new = Fn(F, ["impl OpaqueIpcMessage", "new"], ret="r",
    ensures=[Clause("ipc.OpaqueIpcMessage.new/ensures.same_bytes_same_attachments_in_order",
                    "r.data@ == data@ && r.os_ipc_channels@ == wrapped(os_ipc_channels@) && r.os_ipc_shared_memory_regions@ == wrapped(os_ipc_shared_memory_regions@)", ["C08", "C04", "C05"])],
    rules=[Rule("D29", r"(\w+)\s*\.into_iter\(\)\s*\.map\(Some\)\s*\.collect\(\)", r"wrap_some(\1)", "iterator adapter chain -> stub stating exactly the element-wise wrap")],
    safety_props=["C08"])

connect = Fn(F, [SND, "connect"], ret="r", extra_params=TO,
    ensures=[
        Clause("ipc.IpcSender.connect/ensures.wraps_the_platform_sender_connected_to_that_name",
               "r matches Ok(s) ==> final(o).connected == Some((s.os_sender.xid, name@))", ["C08"]),
        Clause("ipc.IpcSender.connect/ensures.frame", "final(o).created == old(o).created && final(o).accepted == old(o).accepted && final(o).decodes == old(o).decodes"),
    ],
    rules=[AppendArg("B73", r"OsIpcSender::connect\(", OG, "platform connect (unit U9) with the `?` conversion folded in", min_count=1)],
    safety_props=["C08"])

RCV = "impl<T> IpcReceiver<T> where T: for<'de> Deserialize<'de> + Serialize,"
ETA = [
    Rule("D31", r"\.map_err\(IpcError::Bincode\)", ".map_err(|e: bincode::Error| -> (x: IpcError) ensures x == IpcError::Bincode(e) { IpcError::Bincode(e) })",
         "eta-expansion of a datatype constructor used as a function value"),
    Rule("D31", r"\.map_err\(TryRecvError::IpcError\)", ".map_err(|e: IpcError| -> (x: TryRecvError) ensures x == TryRecvError::IpcError(e) { TryRecvError::IpcError(e) })",
         "eta-expansion of a datatype constructor used as a function value"),
    AppendArg("B72", r"\.to\(", OG, "OpaqueIpcMessage::to (unit U7) as a stub that records what was decoded", min_count=1),
    CtorClosure(),
    Rule("D35", r"Err\(From::from\((\w+)\)\)", r"Err(\1)", "`?` written out: the platform stubs of this unit already return the converted error type, so the conversion is the identity"),
    Rule("D35", r"Err\((?:IpcError|TryRecvError|io::Error|bincode::Error)::from\((\w+)\)\)", r"Err(\1)", "same, with the target type named"),
]
def recv_fn(name, kind, err_wrap, props):
    return Fn(F, [RCV, name], ret="r", extra_params=TO,
        ensures=[
            Clause("ipc.IpcReceiver.%s/ensures.one_platform_receive_of_this_kind_on_this_receiver" % name,
                   "final(o).recvs == old(o).recvs.push((self.os_receiver.rid, %s))" % kind, props),
            Clause("ipc.IpcReceiver.%s/ensures.value_is_decoded_from_exactly_what_was_received" % name,
                   "r matches Ok(v) ==> final(o).got is Some && final(o).decodes == old(o).decodes + 1\n"
                   "&& value_src(v) == ((final(o).got->0).0, wrapped((final(o).got->0).1), wrapped((final(o).got->0).2))", ["C01", "C04", "C05", "C16"] + props),
            Clause("ipc.IpcReceiver.%s/ensures.error_is_the_platforms_or_a_decode_error" % name,
                   "r matches Err(e) ==> (final(o).failed == old(o).failed + 1 && final(o).decodes == old(o).decodes && %s)\n"
                   "|| (final(o).failed == old(o).failed && final(o).decodes == old(o).decodes + 1 && %s)" % (err_wrap[0], err_wrap[1]), ["C16"] + props),
            Clause("ipc.IpcReceiver.%s/ensures.frame" % name, "same_oneshot(*old(o), *final(o))"),
        ],
        rules=[AppendArg("B74", r"self\.os_receiver\.%s\(" % name, OG, "platform receive (units U3/K4) with the `?` conversion (unit U4b) folded in", min_count=1)] + ETA,
        safety_props=props)
ipc_recv = recv_fn("recv", "RecvKind::Blocking", ("final(o).last_ipc_err == Some(e)", "e is Bincode"), ["C01", "C03"])
ipc_try_recv = recv_fn("try_recv", "RecvKind::Nonblocking", ("final(o).last_try_err == Some(e)", "e matches TryRecvError::IpcError(IpcError::Bincode(_))"), ["C10", "C03"])
ipc_try_recv_timeout = recv_fn("try_recv_timeout", "RecvKind::Timeout(duration)", ("final(o).last_try_err == Some(e)", "e matches TryRecvError::IpcError(IpcError::Bincode(_))"), ["C10", "C03"])

bytes_send = Fn(F, ["impl IpcBytesSender", "send"], ret="r", extra_params=TO,
    ensures=[
        Clause("ipc.IpcBytesSender.send/ensures.one_platform_send_of_exactly_these_bytes_without_attachments",
               "final(o).sends == old(o).sends.push((self.os_sender.xid, data@, 0nat, 0nat))", ["C01", "C02", "C09"]),
        Clause("ipc.IpcBytesSender.send/ensures.fails_iff_the_platform_send_failed", "(r is Ok) == final(o).last_send_ok", ["C09", "C01"]),
        Clause("ipc.IpcBytesSender.send/ensures.frame", "same_oneshot(*old(o), *final(o)) && final(o).recvs == old(o).recvs && final(o).decodes == old(o).decodes"),
    ],
    rules=[AppendArg("B75", r"\.send\(", OG, "platform send (unit U2) as a stub that logs what it was handed", min_count=1),
           Rule("D31", r"\.map_err\(io::Error::from\)", ".map_err(|e: UnixError| -> (x: io::Error) { unix_error_to_io(e) })", "function item used as a function value -> closure calling the conversion stub")],
    safety_props=["C01", "C09"])

UNIT = Unit(
    name="u10_oneshot",
    prelude=["units/common.rs", "units/u10_oneshot.rs"],
    groups=[("impl OpaqueIpcMessage", [msg_new]), ("impl<T> IpcOneShotServer<T>", [server_new, accept]), ("impl<T> IpcSender<T>", [connect]),
            ("impl<T> IpcReceiver<T>", [ipc_recv, ipc_try_recv, ipc_try_recv_timeout]), ("impl IpcBytesSender", [bytes_send])],
    props=["C08", "C01", "C02", "C03", "C04", "C05", "C09", "C10", "C16"],
    kernel_clauses=[
        "the platform one-shot server, accept and connect behave as specified in unit U9; OpaqueIpcMessage::to as in unit U7",
        "`?`'s From<UnixError> conversions (unit U4b for the error kinds) are folded into the platform stubs",
    ],
)
