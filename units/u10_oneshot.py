"""U10 - src/ipc.rs: IpcOneShotServer::{new, accept}, IpcSender::connect (thin wrappers over the platform layer).  Verus."""
from vf.gen import Unit, Fn, Clause, Hint, Rule, AppendArg

F = "src/ipc.rs"
OG = "Tracked(&mut *o)"
TO = "Tracked(o): Tracked<&mut O>"
SRV = "impl<T> IpcOneShotServer<T> where T: for<'de> Deserialize<'de> + Serialize,"
SND = "impl<T> IpcSender<T> where T: Serialize,"

server_new = Fn(F, [SRV, "new"], ret="r", extra_params=TO,
    ensures=[
        Clause("ipc.IpcOneShotServer.new/ensures.wraps_the_platform_server_and_hands_out_its_name",
               "r matches Ok((srv, name)) ==> final(o).created == Some((srv.os_server.sid, name@))", ["C08"]),
        Clause("ipc.IpcOneShotServer.new/ensures.frame", "final(o).accepted == old(o).accepted && final(o).connected == old(o).connected && final(o).decodes == old(o).decodes"),
    ],
    rules=[AppendArg("B70", r"OsIpcOneShotServer::new\(", OG, "platform one-shot server (unit U9) with the `?` conversion folded in", min_count=1)],
    safety_props=["C08"])

accept = Fn(F, [SRV, "accept"], ret="r", extra_params=TO,
    ensures=[
        Clause("ipc.IpcOneShotServer.accept/ensures.receiver_is_the_accepted_connection",
               "r matches Ok((rx, _)) ==> final(o).accepted is Some && (final(o).accepted->0).0 == self.os_server.sid && (final(o).accepted->0).1 == rx.os_receiver.rid", ["C08"]),
        Clause("ipc.IpcOneShotServer.accept/ensures.value_is_decoded_from_exactly_the_first_message",
               "r matches Ok((_, v)) ==> final(o).decodes == old(o).decodes + 1\n"
               "&& value_src(v) == ((final(o).accepted->0).2, (final(o).accepted->0).3, wrapped((final(o).accepted->0).4))", ["C08", "C04", "C05"]),
        Clause("ipc.IpcOneShotServer.accept/ensures.frame", "final(o).created == old(o).created && final(o).connected == old(o).connected"),
    ],
    rules=[
        AppendArg("B71", r"self\.os_server\.accept\(", OG, "platform accept (unit U9) with the `?` conversion folded in", min_count=1),
        Rule("D29", r"(\w+)\.into_iter\(\)\.map\(Some\)\.collect\(\)", r"wrap_some(\1)", "iterator adapter chain -> stub stating exactly the element-wise wrap"),
        AppendArg("B72", r"\.to\(", OG, "OpaqueIpcMessage::to (unit U7) as a stub that records what was decoded", min_count=1),
    ],
    safety_props=["C08"])

connect = Fn(F, [SND, "connect"], ret="r", extra_params=TO,
    ensures=[
        Clause("ipc.IpcSender.connect/ensures.wraps_the_platform_sender_connected_to_that_name",
               "r matches Ok(s) ==> final(o).connected == Some((s.os_sender.xid, name@))", ["C08"]),
        Clause("ipc.IpcSender.connect/ensures.frame", "final(o).created == old(o).created && final(o).accepted == old(o).accepted && final(o).decodes == old(o).decodes"),
    ],
    rules=[AppendArg("B73", r"OsIpcSender::connect\(", OG, "platform connect (unit U9) with the `?` conversion folded in", min_count=1)],
    safety_props=["C08"])

UNIT = Unit(
    name="u10_oneshot",
    prelude=["units/common.rs", "units/u10_oneshot.rs"],
    groups=[("impl<T> IpcOneShotServer<T>", [server_new, accept]), ("impl<T> IpcSender<T>", [connect])],
    props=["C08"],
    kernel_clauses=[
        "the platform one-shot server, accept and connect behave as specified in unit U9; OpaqueIpcMessage::to as in unit U7",
        "`?`'s From<UnixError> conversions (unit U4b for the error kinds) are folded into the platform stubs",
    ],
)
