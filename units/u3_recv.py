"""U3 - unix::recv (reassembly), OsOpaqueIpcChannel conversions.  Verus, unbounded."""
from vf.gen import Unit, Fn, Clause, Hint, Rule, Loop, AppendArg, DROP
from units.u2_send import fragment_size, first_fragment_size, get_max_fragment_size, R_SYS, IMPL

F = "src/platform/unix/mod.rs"

RULES = [
    R_SYS,
    Rule("B28", r"UnixError::last\(\)", "UnixError::last_with(Tracked(&*k))", "errno is ghost kernel state: a stale value is visible"),
    Rule("D10", r"\bVec::with_capacity\(", "vec_with_capacity(", "capacity-aware wrapper"),
    Rule("D11", r"mem::size_of_val\(&total_size\)", "mem::size_of::<usize>()", "total_size: usize"),
    Rule("E1", r"let mut iovec = \[\s*iovec \{\s*iov_base: &mut total_size as \*mut _ as \*mut c_void,\s*iov_len: (?P<l0>[^,]+),\s*\},\s*"
               r"iovec \{\s*iov_base: main_data_buffer\.as_mut_ptr\(\) as \*mut c_void,\s*iov_len: (?P<l1>[^,]+),\s*\},\s*\];",
         r"let mut iovec = IoVec2 { len0: \g<l0>, len1: \g<l1> };",
         "raw iovec array -> its two lengths (bases are &mut total_size and main_data_buffer, passed at the recv call)", min_count=1),
    Rule("E1b", r"cmsg\.recv\(fd, blocking_mode\)", "cmsg.recv(fd, blocking_mode, &mut total_size, &mut main_data_buffer, Tracked(&mut *k))",
         "the iovec targets and the ghost kernel passed to the recvmsg stub", min_count=1),
    Rule("E2", r"let cmsg_fds = CMSG_DATA\(cmsg\.cmsg_buffer\) as \*const c_int;", "/* E2: cmsg_fds pointer elided; reads go through cmsg.fd_at(i) */",
         "raw pointer into the control buffer", min_count=1),
    Rule("E2b", r"\*cmsg_fds\.add\(([A-Za-z_0-9]+)\)", r"cmsg.fd_at(\1)", "pointer read -> checked accessor (bounds stay an obligation)", min_count=1),
    Rule("E2c", r"cmsg\.msghdr\.msg_controllen", "cmsg.msg_controllen()", "field of the FFI msghdr"),
    Rule("B4", r"\bis_socket\(([A-Za-z_0-9]+)\)", r"is_socket(\1, Tracked(&*k))", "fstat stub over the ghost kernel"),
    Rule("E3", r"libc::recv\(\s*dedicated_rx\.fd\.get\(\),\s*main_data_buffer\[write_pos\.\.\]\.as_mut_ptr\(\) as \*mut c_void,\s*(?P<len>[^,]+),\s*(?P<flags>[^,]+),\s*\)",
         r"k_recv(Tracked(&mut *k), dedicated_rx.fd.get(), &mut main_data_buffer, write_pos, \g<len>, \g<flags>)",
         "libc::recv on the dedicated socket -> kernel stub (length and flags kept)", min_count=1),
]

SPLIT_STEP = (
    "proof {\n"
    "    assert(p.fds.subrange(0, idx0 + 1) =~= p.fds.subrange(0, idx0 as int).push(p.fds[idx0 as int]));\n"
    "    lemma_socks_push(p.fds.subrange(0, idx0 as int), p.fds[idx0 as int], k1.sock);\n"
    "    assert(channels@.len() == ch0.len() + 1 ==> channels@ =~= ch0.push(channels@.last()));\n"
    "    assert(shared_memory_regions@.len() == rg0.len() + 1 ==> shared_memory_regions@ =~= rg0.push(shared_memory_regions@.last()));\n"
    "    assert(channels@ =~= ch0.push(channels@.last()) ==> opaque_fds(channels@) =~= opaque_fds(ch0).push(channels@.last().fd));\n"
    "    assert(shared_memory_regions@ =~= rg0.push(shared_memory_regions@.last()) ==> region_fds(shared_memory_regions@) =~= region_fds(rg0).push(shared_memory_regions@.last().store.fd));\n"
    "}")

recv_message = Fn(F, ["recv_message"], ret="r", extra_params="Tracked(k): Tracked<&mut K>",
    requires=[
        Clause("unix.recv/requires.sys", "48 <= sys_sendbuf() <= isize::MAX"),
        Clause("unix.recv/requires.kernel_wf", "old(k).q.dom().contains(fd)"),
        Clause("unix.recv/requires.head_written_by_send", "head_ok(*old(k), fd)"),
    ],
    ensures=[
        Clause("unix.recv/ensures.ok_exact_payload_and_attachments",
               "r matches Ok(Some((d, c, s))) ==> recv_ok_post(*old(k), *final(k), fd, d@, c@, s@)", ["C01", "C02", "C04", "C05", "C12", "C13", "C18"]),
        Clause("unix.recv/ensures.ok_only_if_complete",
               "r matches Ok(Some(_)) ==> head_complete(*old(k), fd)", ["C12", "C01", "C13"]),
        Clause("unix.recv/ensures.complete_head_is_delivered_or_io_error",
               "head_complete(*old(k), fd) ==> !(r matches Err(UnixError::ChannelClosed)) && !(r matches Ok(None))", ["C12", "C03", "C01"]),
        Clause("unix.recv/ensures.abandoned_emission_consumed_whole_and_reported_as_no_message",
               "r matches Ok(None) ==> old(k).q[fd].len() > 0 && !head_complete(*old(k), fd) && final(k).q == after_head(old(k).q, fd) && final(k).sock == old(k).sock", ["C12", "C03"]),
        Clause("unix.recv/ensures.closed_only_on_own_eof",
               "r matches Err(UnixError::ChannelClosed) ==> old(k).q[fd].len() == 0", ["C12", "C03"]),
        Clause("unix.recv/ensures.would_block_only_when_nothing_was_queued",
               "r matches Err(UnixError::Errno(c)) ==> ((c == libc::EAGAIN || c == libc::EWOULDBLOCK) ==> old(k).q[fd].len() == 0 && final(k).q == old(k).q)",
               ["C10", "C12", "C06", "C03"]),
        Clause("unix.recv/ensures.nothing_queued_nothing_consumed",
               "old(k).q[fd].len() == 0 ==> r is Err && final(k).q == old(k).q", ["C10", "C03"]),
        Clause("unix.recv/ensures.at_most_one_first_packet_receive_in_the_callers_mode",
               "final(k).rx_modes == old(k).rx_modes || final(k).rx_modes == old(k).rx_modes.push((fd, mode_code(blocking_mode)))", ["C10"]),
    ],
    loops={
        0: Loop(desugar_range_for=True, invariants=[
            Clause("unix.recv/loop0.invariant.split",
                   "index <= channel_length && cmsg.got == Some(p) && channel_length == p.fds.len() && p.fds.len() <= MAX_FDS_IN_CMSG\n"
                   "&& k.q == k1.q && k.sock == k1.sock && k.peer == k1.peer && k.log == k1.log && k.rx_modes == k1.rx_modes\n"
                   "&& opaque_fds(channels@) == socks(p.fds.subrange(0, index as int), k1.sock)\n"
                   "&& region_fds(shared_memory_regions@) == nonsocks(p.fds.subrange(0, index as int), k1.sock)", ["C04", "C05", "C13", "C18"])],
            decreases="channel_length - index", continue_hint=Hint("-", SPLIT_STEP, "unix.recv/loop0.invariant.split")),
        1: Loop(invariants=[
            Clause("unix.recv/loop1.invariant.reassembly",
                   "total_size == p.hdr->Some_0 && total_size <= isize::MAX\n"
                   "&& main_data_buffer@.len() <= total_size && vec_cap(&main_data_buffer) >= total_size\n"
                   "&& cell_val(&dedicated_rx.fd) == ded && k.q.dom().contains(ded) && ded != fd\n"
                   "&& followups_ok(k.q[ded])\n"
                   "&& main_data_buffer@.len() + flat(k.q[ded]).len() <= total_size\n"
                   "&& (head_complete(k0, fd) ==> main_data_buffer@.len() + flat(k.q[ded]).len() == total_size)\n"
                   "&& main_data_buffer@ + flat(k.q[ded]) == p.data + flat(k0.q[ded])\n"
                   "&& k.q == k0.q.insert(fd, k0.q[fd].drop_first()).insert(ded, k.q[ded])\n"
                   "&& k.sock == k0.sock && k.rx_modes == k0.rx_modes.push((fd, mode_code(blocking_mode)))", ["C01", "C02", "C12", "C13", "C18"])],
            decreases="total_size - main_data_buffer@.len()"),
    },
    hints=[
        Hint("body:start", "let ghost k0 = *k;\nlet ghost p = k0.q[fd].first();\nlet ghost mut k1 = *k;\nlet ghost mut filled = Seq::<u8>::empty();\nlet ghost ded = p.fds.last();\nlet ghost mut all_ch = Seq::<OsOpaqueIpcChannel>::empty();"),
        Hint("after:let bytes_read = [^;]*;", "proof { filled = main_data_buffer@; k1 = *k; lemma_first_mono_all(); }", "unix.recv/ensures.ok_exact_payload_and_attachments"),
        Hint("loop:0:before",
             "proof {\n"
             "    assert(main_data_buffer@ =~= p.data) by {\n"
             "        assert(filled.subrange(0, p.data.len() as int) == p.data);\n"
             "        assert forall|i: int| 0 <= i < p.data.len() implies main_data_buffer@[i] == p.data[i] by {\n"
             "            assert(filled.subrange(0, p.data.len() as int)[i] == filled[i]);\n"
             "        }\n"
             "    }\n"
             "    assert(spec_cmsg_align(16) == 16);\n"
             "    assert((4 * p.fds.len()) / 4 == p.fds.len());\n"
             "    assert(channel_length == p.fds.len());\n"
             "    assert(p.fds.subrange(0, 0) =~= Seq::<c_int>::empty());\n"
             "    assert(opaque_fds(channels@) =~= Seq::<c_int>::empty());\n"
             "    assert(region_fds(shared_memory_regions@) =~= Seq::<c_int>::empty());\n"
             "}", "unix.recv/ensures.ok_exact_payload_and_attachments"),
        Hint("loop:0:start", "let ghost ch0 = channels@;\nlet ghost rg0 = shared_memory_regions@;\nlet ghost idx0 = index;"),
        Hint("loop:0:end", SPLIT_STEP, "unix.recv/loop0.invariant.split"),
        Hint("loop:0:after",
             "proof { assert(p.fds.subrange(0, p.fds.len() as int) =~= p.fds); all_ch = channels@; }",
             "unix.recv/ensures.ok_exact_payload_and_attachments"),
        Hint("loop:1:before",
             "proof {\n"
             "    lemma_socks_push(p.fds.drop_last(), ded, k0.sock);\n"
             "    assert(p.fds.drop_last().push(ded) =~= p.fds);\n"
             "    assert(opaque_fds(all_ch).last() == ded);\n"
             "    assert(opaque_fds(channels@) =~= opaque_fds(all_ch).drop_last());\n"
             "    assert(k.q =~= k0.q.insert(fd, k0.q[fd].drop_first()).insert(ded, k.q[ded]));\n"
             "}", "unix.recv/loop1.invariant.reassembly"),
        Hint("loop:1:start",
             "let ghost kb = *k;\nlet ghost mb = main_data_buffer@;\n"
             "proof {\n"
             "    lemma_flat_pos(kb.q[ded]);\n"
             "    if kb.q[ded].len() > 0 { lemma_flat_first(kb.q[ded]); lemma_followups_drop_first(kb.q[ded]); }\n"
             "    assert forall|a: Seq<u8>, b: Seq<u8>, c: Seq<u8>| #[trigger] ((a + b) + c) == a + (b + c) by { assert(((a + b) + c) =~= a + (b + c)); }\n"
             "    assert(mb.subrange(0, mb.len() as int) =~= mb);\n"
             "}"),
        Hint("loop:1:after",
             "proof {\n"
             "    lemma_flat_pos(k.q[ded]);\n"
             "    assert(k.q[ded] =~= Seq::<Packet>::empty());\n"
             "    assert(main_data_buffer@ =~= main_data_buffer@ + flat(k.q[ded]));\n"
             "}", "unix.recv/ensures.ok_exact_payload_and_attachments"),
    ],
    rules=RULES,
    attrs="#[verifier::loop_isolation(false)]",
    safety_props=["C18"], termination_props=["C12", "C10"])

recv = Fn(F, ["recv"], ret="r", extra_params="Tracked(k): Tracked<&mut K>",
    requires=[
        Clause("unix.recv.loop/requires.sys", "48 <= sys_sendbuf() <= isize::MAX"),
        Clause("unix.recv.loop/requires.every_queued_emission_written_by_send", "old(k).q.dom().contains(fd) && heads_ok(*old(k), old(k).q, fd, old(k).q[fd].len())"),
    ],
    ensures=[
        Clause("unix.recv.loop/ensures.complete_head_is_delivered_exactly_by_this_call",
               "head_complete(*old(k), fd) ==> !(r matches Err(UnixError::ChannelClosed))\n"
               "&& (r matches Ok((d, c, s)) ==> recv_ok_post(*old(k), *final(k), fd, d@, c@, s@))", ["C01", "C02", "C04", "C05", "C12", "C13", "C03"]),
        Clause("unix.recv.loop/ensures.ok_is_a_complete_emission_after_only_abandoned_ones",
               "r matches Ok((d, c, s)) ==> exists|n: nat, q1: Map<c_int, Seq<Packet>>| skipped(*old(k), old(k).q, fd, n, q1)\n"
               "&& head_complete(with_q(*old(k), q1), fd) && recv_ok_post(with_q(*old(k), q1), *final(k), fd, d@, c@, s@)", ["C12", "C01", "C02"]),
        Clause("unix.recv.loop/ensures.closed_only_on_own_eof_after_only_abandoned_emissions",
               "r matches Err(UnixError::ChannelClosed) ==> final(k).q[fd].len() == 0\n"
               "&& exists|n: nat| skipped(*old(k), old(k).q, fd, n, final(k).q)", ["C12", "C03"]),
        Clause("unix.recv.loop/ensures.would_block_only_when_nothing_deliverable_was_queued",
               "r matches Err(UnixError::Errno(c)) ==> ((c == libc::EAGAIN || c == libc::EWOULDBLOCK) ==> final(k).q[fd].len() == 0\n"
               "&& exists|n: nat| skipped(*old(k), old(k).q, fd, n, final(k).q))", ["C10", "C12", "C06", "C03", "C02", "C07", "C20"]),
        Clause("unix.recv.loop/ensures.every_first_packet_receive_in_the_callers_mode",
               "old(k).rx_modes.is_prefix_of(final(k).rx_modes)\n"
               "&& (forall|i: int| old(k).rx_modes.len() <= i < final(k).rx_modes.len() ==> (#[trigger] final(k).rx_modes[i]) == (fd, mode_code(blocking_mode)))", ["C10"]),
        Clause("unix.recv.loop/ensures.nothing_queued_nothing_consumed",
               "old(k).q[fd].len() == 0 ==> r is Err && final(k).q == old(k).q", ["C10", "C03"]),
    ],
    loops={0: Loop(invariants=[
        Clause("unix.recv.loop/loop0.invariant.only_abandoned_emissions_skipped_so_far",
               "k.q.dom().contains(fd) && k.sock == k0.sock && heads_ok(k0, k.q, fd, k.q[fd].len())\n"
               "&& skipped(k0, k0.q, fd, nskip, qs) && (nskip > 0 ==> !head_complete(k0, fd)) && (nskip == 0 ==> qs == k0.q)\n"
               "&& (k.q == qs || (qs[fd].len() > 0 && !head_complete(with_q(k0, qs), fd) && k.q == after_head(qs, fd)))", ["C12", "C03"]),
        Clause("unix.recv.loop/loop0.invariant.every_receive_so_far_in_the_callers_mode",
               "k0.rx_modes.is_prefix_of(k.rx_modes)\n"
               "&& (forall|i: int| k0.rx_modes.len() <= i < k.rx_modes.len() ==> (#[trigger] k.rx_modes[i]) == (fd, mode_code(blocking_mode)))", ["C10"])],
        decreases="k.q[fd].len()")},
    hints=[
        # ghost bookkeeping sits at the START of an iteration (a `continue` may skip the end of the body): `qs` is the queue state at
        # the start of the current iteration; one abandoned emission consumed since then is folded into (nskip, qs) when the next one starts
        Hint("body:start", "let ghost k0 = *k;\nlet ghost mut nskip: nat = 0;\nlet ghost mut qs = k.q;"),
        Hint("loop:0:start",
             "proof {\n"
             "    if k.q != qs {\n"
             "        lemma_skipped_snoc(k0, k0.q, fd, nskip, qs);\n"
             "        nskip = nskip + 1;\n"
             "    }\n"
             "    qs = k.q;\n"
             "    assert(head_ok(with_q(k0, qs), fd));\n"
             "    assert(head_ok(*k, fd));\n"
             "    assert(head_complete(with_q(k0, qs), fd) == head_complete(*k, fd));\n"
             "}", "unix.recv.loop/loop0.invariant.only_abandoned_emissions_skipped_so_far"),
    ],
    rules=[AppendArg("B29", r"\brecv_message\(", "Tracked(&mut *k)", "the one-message receive (under contract above)", min_count=1),
           Rule("D35", r"Err\(From::from\((\w+)\)\)", r"Err(\1)", "`?` written out: in this function the error type converts to itself (From<T> for T is the identity)")],
    attrs="#[verifier::loop_isolation(false)]",
    safety_props=["C18"], termination_props=["C12", "C10"])

opaque_from_fd = Fn(F, ["impl OsOpaqueIpcChannel", "from_fd"], ret="r",
    ensures=[Clause("unix.OsOpaqueIpcChannel.from_fd/ensures.wraps", "r.fd == fd", ["C04"])], safety_props=["C18"])
opaque_to_receiver = Fn(F, ["impl OsOpaqueIpcChannel", "to_receiver"], ret="r",
    ensures=[Clause("unix.OsOpaqueIpcChannel.to_receiver/ensures.moves_fd", "cell_val(&r.fd) == old(self).fd && final(self).fd == -1", ["C04", "C11"])],
    safety_props=["C18"])
opaque_to_sender = Fn(F, ["impl OsOpaqueIpcChannel", "to_sender"], ret="r",
    ensures=[Clause("unix.OsOpaqueIpcChannel.to_sender/ensures.moves_fd", "r.fd.0 == old(self).fd && final(self).fd == -1", ["C04", "C11"])],
    safety_props=["C18"])
receiver_from_fd = Fn(F, ["impl OsIpcReceiver", "from_fd"], ret="r",
    ensures=[Clause("unix.OsIpcReceiver.from_fd/ensures.wraps", "cell_val(&r.fd) == fd", ["C04"])], safety_props=["C18"])
sender_from_fd = Fn(F, ["impl OsIpcSender", "from_fd"], ret="r",
    ensures=[Clause("unix.OsIpcSender.from_fd/ensures.wraps", "r.fd.0 == fd", ["C04"])], safety_props=["C18"],
    rules=[Rule("D12", r",\s*nosync_marker: PhantomData,?", "", "PhantomData marker field omitted from the stand-in struct")])

cmsg_align = Fn(F, ["CMSG_ALIGN"], ret="r",
    requires=[Clause("unix.CMSG_ALIGN/requires.no_overflow", "length <= usize::MAX - 8")],
    ensures=[Clause("unix.CMSG_ALIGN/ensures.spec", "r == spec_cmsg_align(length as nat)", ["C18"])],
    hints=[Hint("body:start", "proof { lemma_masks(); assert(mem::size_of::<size_t>() == 8); assert(!((8usize - 1) as usize) == 0xffff_ffff_ffff_fff8usize) by (bit_vector); }",
                "unix.CMSG_ALIGN/ensures.spec")],
    safety_props=["C18"])

UNIT = Unit(
    name="u3_recv",
    prelude=["units/common.rs", "units/unix_types.rs", "units/u3_recv.rs"],
    groups=[(IMPL, [fragment_size, first_fragment_size, get_max_fragment_size, sender_from_fd]),
            ("impl OsIpcReceiver", [receiver_from_fd]),
            ("impl OsOpaqueIpcChannel", [opaque_from_fd, opaque_to_sender, opaque_to_receiver]),
            (None, [cmsg_align, recv_message, recv])],
    props=["C01", "C02", "C03", "C04", "C05", "C06", "C07", "C10", "C11", "C12", "C13", "C18", "C20"],
    prelude_clauses={
        "std.set_len/requires.le_capacity": ["C18", "C13"],
        "unix.UnixCmsg.recv/requires.header_iovec_is_usize": ["C18", "C01"],
        "unix.UnixCmsg.recv/requires.data_iovec_is_buffer_len": ["C18", "C01"],
        "unix.UnixCmsg.cmsg_len/requires.control_data_present": ["C18"],
        "unix.recv.fd_at/requires.index_lt_received": ["C18", "C04"],
        "unix.recv.fd_at/requires.inside_control_buffer": ["C18"],
        "unix.recv.k_recv/requires.write_inside_buffer": ["C18", "C13"],
        "unix.recv.k_recv/requires.blocking_read": ["C10"],
    },
    kernel_clauses=[
        "recvmsg/recv on SOCK_SEQPACKET pop exactly the head packet, write min(packet, offered) bytes, drop the rest of a longer packet; a read of 0 means nothing is queued (and no sender is left)",
        "every packet at the head of a channel's socket was written by OsIpcSender::send (U2 postcondition) - possibly followed by only a prefix of its follow-ups",
        "fstat classifies descriptors consistently (k.sock)",
        "x86_64-linux-gnu: size_of cmsghdr == 16",
    ],
)
