"""U6b - RouterProxy::{add_route, shutdown}: the proxy side of the wake-up / message pairing and of stopping.  Verus."""
import re
from vf.gen import Unit, Fn, Clause, Hint, Rule, Loop, AppendArg, Edit, GenError, ClosureFn
from vf import rustsrc as rs

F = "src/router.rs"
P = "Tracked(&mut *p)"

class LockGuard(Rule):
    """D17: `let comm = self.comm.lock().unwrap();` -> `let comm = &mut *comm_guard; ghost_set_locked(true, p);` (mutex elimination:
    the guard becomes an exclusive borrow passed in; poisoning not modelled).  A guard taken inside an inner block
    (`let x = { let comm = ..lock()..; ..; value };`) is released where that block ends: `ghost_set_locked(false, p);` is
    inserted after the statement the block belongs to."""
    def __init__(self):
        Rule.__init__(self, "D17", r"let (?:mut )?comm = self\.comm\.lock\(\)\.unwrap\(\);", "", "mutex elimination", min_count=1)

    def custom(self, src, m, item, in_skip):
        from vf.gen import _enclosing_open
        out = []
        for x in self.regex.finditer(m, item.body_open, item.body_close):
            out.append(Edit(x.start(), x.end(), "let comm = &mut *comm_guard; ghost_set_locked(true, Tracked(&mut *p));", "rule", "D17"))
            eo = _enclosing_open(m, x.start(), item.body_open)
            if eo > item.body_open:                       # the guard lives in an inner block
                ec = rs.match_close(m, eo)
                semi = rs.depth0_find(m, ec + 1, item.body_close, lambda mm_, i: mm_[i] == ";")
                if semi > 0 and m[ec + 1:semi].strip() == "":
                    out.append(Edit(semi + 1, semi + 1, " ghost_set_locked(false, Tracked(&mut *p)); /* D17: guard dropped at the end of its block */", "rule", "D17"))
        return out

R_LOCK = LockGuard()
R_MSG = AppendArg("B30", r"\bmsg_sender\s*\.send\(", P, "crossbeam sender stub over the ghost world", min_count=1)
R_WAKE = AppendArg("B31", r"\bwakeup_sender\s*\.send\(", P, "ipc wake-up sender stub", min_count=1)
R_UNLOCK = Rule("D17b", r"\bdrop\(comm\);", "ghost_set_locked(false, Tracked(&mut *p));", "dropping the guard releases the mutex (ghost flag)")
R_ACK = AppendArg("B32", r"ack_receiver\.recv\(", P, "acknowledgement receiver stub")


class MapUnwrap(Rule):
    """D18: `EXPR.map(|_| BLOCK).unwrap();` -> `match EXPR { Ok(_) => BLOCK, Err(e) => unwrap_failed(e) };`
    (closures capturing exclusive borrows are outside this Verus; this is the definition of Result::map + unwrap for a unit closure)."""
    def __init__(self):
        Rule.__init__(self, "D18", r"\.map\(\|_\|", "", "Result::map(|_| ..).unwrap() -> match")

    def custom(self, src, m, item, in_skip):
        out = []
        for x in re.finditer(r"\.\s*map\(\s*\|_\|\s*", m[item.body_open:item.body_close]):
            st = item.body_open + x.start()
            po = m.index("(", st)
            pc = rs.match_close(m, po)
            um = re.compile(r"\s*\.\s*unwrap\(\)").match(m, pc + 1)
            if not um:
                raise GenError("construct outside the dialect: .map(|_| ..) not followed by .unwrap()")
            if re.search(r"\breturn\b|\?", m[item.body_open + x.end():pc]):
                raise GenError("construct outside the dialect: `return` or `?` inside the .map(|_| ..) closure (it would become a return of the host function)")
            # statement start: walk back to the previous ';' or '{'
            j = st
            while j > item.body_open and m[j - 1] not in ";{}":
                j -= 1
            while src[j].isspace():
                j += 1
            out.append(Edit(j, j, "match ", "rule", "D18"))
            out.append(Edit(st, item.body_open + x.end(), " { Ok(_) => ", "rule", "D18"))
            out.append(Edit(pc, um.end(), ", Err(e) => unwrap_failed(e) }", "rule", "D18"))
        return out


add_route = Fn(F, ["impl RouterProxy", "add_route"], extra_params="comm_guard: &mut RouterProxyComm, Tracked(p): Tracked<&mut P>",
    ensures=[
        Clause("router.add_route/ensures.inert_after_shutdown",
               "old(comm_guard).shutdown ==> final(p).msgs == old(p).msgs && final(p).wakeups == old(p).wakeups && final(p).ack_waited == old(p).ack_waited", ["C17"]),
        Clause("router.add_route/ensures.one_message_one_wakeup_message_first",
               "!old(comm_guard).shutdown ==> final(p).msgs == old(p).msgs.push(Sent::Route(receiver.rid)) && final(p).wakeups == old(p).wakeups + 1", ["C07", "C17"]),
        Clause("router.add_route/ensures.flag_untouched", "final(comm_guard).shutdown == old(comm_guard).shutdown", ["C17"]),
    ],
    rules=[R_LOCK, R_UNLOCK, R_MSG, R_WAKE], safety_props=["C17", "C07"])

shutdown = Fn(F, ["impl RouterProxy", "shutdown"], extra_params="comm_guard: &mut RouterProxyComm, Tracked(p): Tracked<&mut P>",
    ensures=[
        Clause("router.shutdown/ensures.flag_set", "final(comm_guard).shutdown", ["C17"]),
        Clause("router.shutdown/ensures.idempotent", "old(comm_guard).shutdown ==> final(p).msgs == old(p).msgs && final(p).wakeups == old(p).wakeups && final(p).ack_waited == old(p).ack_waited", ["C17"]),
        Clause("router.shutdown/ensures.one_wakeup_one_shutdown_message_then_wait_for_ack",
               "!old(comm_guard).shutdown ==> final(p).msgs == old(p).msgs.push(Sent::Shutdown) && final(p).wakeups == old(p).wakeups + 1 && final(p).ack_waited", ["C17", "C07"]),
    ],
    rules=[R_LOCK, R_UNLOCK, R_MSG, R_WAKE, R_ACK, MapUnwrap()], safety_props=["C17"])

forward = ClosureFn(F, ["impl RouterProxy", "route_ipc_receiver_to_crossbeam_sender"], "forward",
    sig="pub fn forwarding_callback<T>(crossbeam_sender: &CbSender<T>, message: OpaqueIpcMessage, Tracked(f): Tracked<&mut F>)",
    ensures=[
        Clause("router.forward/ensures.each_routed_message_forwarded_exactly_once",
               "old(f).decodable && old(f).receiver_alive ==> final(f).forwarded == old(f).forwarded.push(message.mid)", ["C07"]),
        Clause("router.forward/ensures.nothing_else_forwarded",
               "old(f).decodable ==> final(f).forwarded == old(f).forwarded || final(f).forwarded == old(f).forwarded.push(message.mid)", ["C07"]),
    ],
    rules=[
        Rule("B33", r"message\.to::<T>\(\)", "message.to::<T>(Tracked(&mut *f))", "OpaqueIpcMessage::to stub", min_count=1),
        AppendArg("B34", r"crossbeam_sender\.\w+\(", "Tracked(&mut *f)", "crossbeam sender stub (ghost log of what was forwarded)", min_count=1),
        Rule("D21", r"\bdrop\(", "drop_value(", "core::mem::drop has no vstd spec"),
    ],
    safety_props=["C07", "C16", "C17"])

route_new = Fn(F, ["impl RouterProxy", "route_ipc_receiver_to_new_crossbeam_receiver"], ret="r", extra_params="Tracked(g): Tracked<&mut RouteLog>",
    ensures=[
        # the forwarding callback runs ON the router thread: if its send could wait for room, a consumer that is slow (or is the
        # thread calling shutdown) would stop the router from ever reading its shutdown message - shutdown() would never return
        Clause("router.route_new/ensures.one_route_to_the_returned_receiver_over_an_unbounded_channel",
               "final(g).routes == old(g).routes.push((ipc_receiver.rid, r.chan, true)) && r.unbounded", ["C17", "C07"]),
    ],
    rules=[Rule("B96", r"crossbeam_channel::unbounded\(\)", "cb_unbounded::<T>()", "crossbeam_channel::unbounded at element type T (stub: one fresh channel, sends never wait)"),
           Rule("B96", r"crossbeam_channel::bounded\(", "cb_bounded::<T>(", "crossbeam_channel::bounded (stub: one fresh channel, sends wait while it is full)"),
           AppendArg("B97", r"self\.route_ipc_receiver_to_crossbeam_sender\(", "Tracked(&mut *g)", "the sibling routing function as a stub that logs the route", min_count=1)],
    safety_props=["C17"])

UNIT = Unit(
    name="u6b_proxy",
    prelude=["units/common.rs", "units/u6b_proxy.rs"],
    groups=[("impl RouterProxy", [add_route, shutdown, route_new]), (None, [forward])],
    props=["C07", "C16", "C17"],
    prelude_clauses={
        "router.proxy/requires.message_sent_under_the_proxy_mutex": ["C17", "C07"],
        "router.proxy/requires.wakeup_sent_under_the_proxy_mutex": ["C17", "C07"],
        "router.shutdown/requires.ack_awaited_only_after_the_shutdown_message": ["C17"],
        "router.shutdown/requires.wakeup_send_unwrap": ["C17"],
        "router.shutdown/requires.mutex_held_while_waiting_for_the_ack": ["C17"],
    },
    kernel_clauses=[
        "std::sync::Mutex gives exclusive access to RouterProxyComm; poisoning is not modelled; racing callers are serialised by it",
        "the router thread is alive while the proxy's flag is clear, so channel sends to it succeed",
    ],
)
