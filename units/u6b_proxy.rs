// ---------------------------------------------------------------------------
// U6b prelude: RouterProxy::{add_route, shutdown} (src/router.rs 61-98).
// The proxy mutex is eliminated (D17): `self.comm.lock().unwrap()` gives exclusive
// access to the RouterProxyComm, modelled as an exclusive borrow `comm_guard`
// passed in; poisoning is not modelled.  Channels are stubs over a ghost world P.
// ---------------------------------------------------------------------------
pub struct OpaqueIpcReceiver { pub ghost rid: int }
#[verifier::external_body]
pub struct RouterHandler { _p: () }
pub struct AckSender { pub _p: () }
pub struct AckReceiver { pub _p: () }
pub enum RouterMsg { AddRoute(OpaqueIpcReceiver, RouterHandler), Shutdown(AckSender) }
#[derive(Debug)] pub struct SendError { pub _p: () }
#[derive(Debug)] pub struct RecvError { pub _p: () }
#[derive(Debug)] pub struct BincodeError { pub _p: () }

pub enum Sent { Route(int), Shutdown }
pub struct P {
    pub msgs: Seq<Sent>,          // RouterMsgs put on the crossbeam channel, in order
    pub wakeups: nat,             // wake-ups sent on the ipc channel
    pub ack_waited: bool,         // shutdown blocked until the router's acknowledgement arrived
    pub locked: bool,             // the proxy mutex is held by the running operation
}

pub struct MsgSender { pub _p: () }        // crossbeam Sender<RouterMsg>
pub struct WakeupSender { pub _p: () }     // IpcSender<()>
pub struct RouterProxyComm { pub msg_sender: MsgSender, pub wakeup_sender: WakeupSender, pub shutdown: bool }
pub struct RouterProxy { pub _p: () }      // comm: Mutex<RouterProxyComm> -> parameter comm_guard (D17)

pub open spec fn sent_of(m: RouterMsg) -> Sent {
    match m { RouterMsg::AddRoute(r, _) => Sent::Route(r.rid), RouterMsg::Shutdown(_) => Sent::Shutdown }
}
impl MsgSender {
    // crossbeam unbounded send: the router holds the receiver for as long as it runs
    #[verifier::external_body]
    pub fn send(&self, msg: RouterMsg, Tracked(p): Tracked<&mut P>) -> (r: Result<(), SendError>)
        requires old(p).locked, //@@clause:router.proxy/requires.message_sent_under_the_proxy_mutex
        ensures r is Ok, final(p).msgs == old(p).msgs.push(sent_of(msg)), final(p).wakeups == old(p).wakeups, final(p).ack_waited == old(p).ack_waited, final(p).locked == old(p).locked
    { unimplemented!() }
    // crossbeam Sender::clone: another handle on the same channel
    #[verifier::external_body]
    pub fn clone(&self) -> (r: MsgSender) { unimplemented!() }
}
impl WakeupSender {
    // IpcSender<()>::send(()): assumption - the router thread is alive (it only exits after shutdown / proxy drop)
    #[verifier::external_body]
    pub fn send(&self, v: (), Tracked(p): Tracked<&mut P>) -> (r: Result<(), BincodeError>)
        requires old(p).locked, //@@clause:router.proxy/requires.wakeup_sent_under_the_proxy_mutex
        ensures r is Ok, final(p).wakeups == old(p).wakeups + 1, final(p).msgs == old(p).msgs, final(p).ack_waited == old(p).ack_waited, final(p).locked == old(p).locked
    { unimplemented!() }
    #[verifier::external_body]
    pub fn clone(&self) -> (r: WakeupSender) { unimplemented!() }
}
impl AckReceiver {
    #[verifier::external_body]
    pub fn recv(&self, Tracked(p): Tracked<&mut P>) -> (r: Result<(), RecvError>)
        requires old(p).msgs.len() > 0 && old(p).msgs.last() is Shutdown, //@@clause:router.shutdown/requires.ack_awaited_only_after_the_shutdown_message
            // waiting WITHOUT the mutex would let a concurrent shutdown()/add_route() see the flag and return before the router has stopped
            old(p).locked, //@@clause:router.shutdown/requires.mutex_held_while_waiting_for_the_ack
        ensures r is Ok, final(p).ack_waited, final(p).msgs == old(p).msgs, final(p).wakeups == old(p).wakeups, final(p).locked == old(p).locked
    { unimplemented!() }
}
pub mod crossbeam_channel {
    #[verifier::external_body]
    pub fn unbounded() -> (super::AckSender, super::AckReceiver) { unimplemented!() }
}
// Result::map(|_| BLOCK).unwrap() is desugared (D18) into `match .. { Ok(_) => BLOCK, Err(e) => unwrap_failed(e) }`
pub fn unwrap_failed<E>(e: E)
    requires false, //@@clause:router.shutdown/requires.wakeup_send_unwrap
{ }

// ghost bookkeeping of the mutex (D17): taking the guard / dropping it early
#[verifier::external_body]
pub fn ghost_set_locked(v: bool, Tracked(p): Tracked<&mut P>)
    ensures final(p).locked == v, final(p).msgs == old(p).msgs, final(p).wakeups == old(p).wakeups, final(p).ack_waited == old(p).ack_waited
{ }

// ---- the forwarding callback of route_ipc_receiver_to_crossbeam_sender (closure body verified as a function) ----
pub struct OpaqueIpcMessage { pub ghost mid: int }
pub struct F {
    pub forwarded: Seq<int>,        // messages put on the crossbeam channel, in order
    pub receiver_alive: bool,       // the crossbeam Receiver still exists
    pub decodable: bool,            // the payload of THIS message decodes as T
}
pub struct CbSender<T> { pub ghost chan: int, pub ghost unbounded: bool, pub _p: PhantomData<T> }
#[derive(Debug)] pub struct CbSendError { pub _p: () }
pub uninterp spec fn val_id<T>(v: T) -> int;
impl OpaqueIpcMessage {
    // OpaqueIpcMessage::to (unit U7): may fail on an undecodable payload
    #[verifier::external_body]
    pub fn to<T>(self, Tracked(f): Tracked<&mut F>) -> (r: Result<T, BincodeError>)
        ensures *final(f) == *old(f), r is Ok <==> old(f).decodable, r matches Ok(v) ==> val_id(v) == self.mid
    { unimplemented!() }
}
impl<T> CbSender<T> {
    // crossbeam Sender::send: waits for room; fails only when the Receiver is gone
    #[verifier::external_body]
    pub fn send(&self, v: T, Tracked(f): Tracked<&mut F>) -> (r: Result<(), CbSendError>)
        ensures final(f).receiver_alive == old(f).receiver_alive, final(f).decodable == old(f).decodable, old(f).receiver_alive ==> r is Ok,
            r is Ok ==> final(f).forwarded == old(f).forwarded.push(val_id(v)), r is Err ==> final(f).forwarded == old(f).forwarded
    { unimplemented!() }
    // Sender::try_send: also fails when a bounded channel is full
    #[verifier::external_body]
    pub fn try_send(&self, v: T, Tracked(f): Tracked<&mut F>) -> (r: Result<(), CbSendError>)
        ensures final(f).receiver_alive == old(f).receiver_alive, final(f).decodable == old(f).decodable,
            r is Ok ==> final(f).forwarded == old(f).forwarded.push(val_id(v)), r is Err ==> final(f).forwarded == old(f).forwarded
    { unimplemented!() }
}
pub fn drop_value<T>(t: T) { }

// ---- route_ipc_receiver_to_new_crossbeam_receiver: the crate itself creates the forwarding channel ----
pub trait Serialize {}
pub trait Deserialize<'de>: Sized {}
pub struct IpcReceiver<T> { pub ghost rid: int, pub _p: PhantomData<T> }
pub struct Receiver<T> { pub ghost chan: int, pub ghost unbounded: bool, pub _p: PhantomData<T> }    // crossbeam_channel::Receiver
pub struct RouteLog { pub routes: Seq<(int, int, bool)> }   // (ipc receiver, crossbeam channel, that channel is unbounded), in registration order
// crossbeam_channel::unbounded / bounded at element type T: both ends of ONE fresh channel; a send on an unbounded
// channel never waits, a send on a bounded one waits while the channel is full
#[verifier::external_body]
pub fn cb_unbounded<T>() -> (r: (CbSender<T>, Receiver<T>))
    ensures r.0.chan == r.1.chan, r.0.unbounded, r.1.unbounded
{ unimplemented!() }
#[verifier::external_body]
pub fn cb_bounded<T>(cap: usize) -> (r: (CbSender<T>, Receiver<T>))
    ensures r.0.chan == r.1.chan, !r.0.unbounded, !r.1.unbounded
{ unimplemented!() }
impl RouterProxy {
    // route_ipc_receiver_to_crossbeam_sender (its callback is verified above, add_route in this unit): one route registered
    #[verifier::external_body]
    pub fn route_ipc_receiver_to_crossbeam_sender<T>(&self, ipc_receiver: IpcReceiver<T>, crossbeam_sender: CbSender<T>, Tracked(g): Tracked<&mut RouteLog>)
        ensures final(g).routes == old(g).routes.push((ipc_receiver.rid, crossbeam_sender.chan, crossbeam_sender.unbounded))
    { unimplemented!() }
}
