// ---------------------------------------------------------------------------
// U2 prelude: type stand-ins and boundary stubs for OsIpcSender::send.
// ---------------------------------------------------------------------------

// ---- boundary stubs: the libc calls, over the ghost kernel ----

// socketpair(AF_UNIX, SOCK_SEQPACKET|SOCK_CLOEXEC): two fresh descriptors, an empty queue
#[verifier::external_body]
pub fn channel(Tracked(k): Tracked<&mut K>) -> (r: Result<(OsIpcSender, OsIpcReceiver), UnixError>)
    ensures
        r matches Ok((tx, rx)) ==> {
            &&& !old(k).q.dom().contains(cell_val(&rx.fd)) && !old(k).peer.dom().contains(tx.fd.0)
            &&& final(k).q == old(k).q.insert(cell_val(&rx.fd), Seq::empty())
            &&& final(k).peer == old(k).peer.insert(tx.fd.0, cell_val(&rx.fd))
            &&& final(k).sock == old(k).sock.insert(cell_val(&rx.fd)).insert(tx.fd.0)
            &&& final(k).log == old(k).log
            &&& final(k).own_rx == old(k).own_rx.insert(cell_val(&rx.fd))     // we hold the new receive end ourselves
            &&& final(k).consumed == old(k).consumed && !old(k).consumed.contains(cell_val(&rx.fd))
        },
        r is Err ==> *final(k) == *old(k),
{ unimplemented!() }

pub open spec fn is_enobufs(e: UnixError) -> bool { e matches UnixError::Errno(c) && c == libc::ENOBUFS }

// sendmsg(fd, [len header | data_buffer], SCM_RIGHTS fds): one whole packet or nothing.
// requires = what the receiving side can take (its control buffer, its first iovec).
#[verifier::external_body]
pub fn send_first_fragment(Tracked(k): Tracked<&mut K>, sender_fd: c_int, fds: &[c_int], data_buffer: &[u8], len: usize) -> (r: Result<(), UnixError>)
    requires
        old(k).peer.dom().contains(sender_fd) && old(k).q.dom().contains(old(k).peer[sender_fd]), //@@clause:unix.send_first_fragment/requires.kernel_wf
        fds@.len() <= MAX_FDS_IN_CMSG, //@@clause:unix.send_first_fragment/requires.fds_le_max
        data_buffer@.len() <= spec_first(sys_sendbuf()), //@@clause:unix.send_first_fragment/requires.fits_first_iovec
    ensures
        final(k).peer == old(k).peer, final(k).sock == old(k).sock, final(k).own_rx == old(k).own_rx, final(k).consumed == old(k).consumed,
        r is Ok ==> final(k).q == old(k).q.insert(old(k).peer[sender_fd],
            old(k).q[old(k).peer[sender_fd]].push(Packet { hdr: Some(len as nat), data: data_buffer@, fds: fds@ })),
        r is Err ==> final(k).q == old(k).q,
        final(k).log == old(k).log.push(Attempt { fd: sender_fd, len: data_buffer@.len(), first: true, ok: r is Ok,
            enobufs: r is Err && is_enobufs(r->Err_0) }),
{ unimplemented!() }

// send(fd, data_buffer): one whole packet without header/descriptors, or nothing.
#[verifier::external_body]
pub fn send_followup_fragment(Tracked(k): Tracked<&mut K>, sender_fd: c_int, data_buffer: &[u8]) -> (r: Result<(), UnixError>)
    requires
        old(k).peer.dom().contains(sender_fd) && old(k).q.dom().contains(old(k).peer[sender_fd]), //@@clause:unix.send_followup_fragment/requires.kernel_wf
        0 < data_buffer@.len() <= spec_frag(sys_sendbuf()), //@@clause:unix.send_followup_fragment/requires.fits_followup_read
        // a blocking write notices a vanished receiver (EPIPE) only if the writer does not itself keep the receive end open
        !old(k).own_rx.contains(old(k).peer[sender_fd]), //@@clause:unix.send_followup_fragment/requires.sender_does_not_hold_the_receive_end
    ensures
        final(k).peer == old(k).peer, final(k).sock == old(k).sock, final(k).own_rx == old(k).own_rx, final(k).consumed == old(k).consumed,
        r is Ok ==> final(k).q == old(k).q.insert(old(k).peer[sender_fd],
            old(k).q[old(k).peer[sender_fd]].push(Packet { hdr: None, data: data_buffer@, fds: Seq::empty() })),
        r is Err ==> final(k).q == old(k).q,
        final(k).log == old(k).log.push(Attempt { fd: sender_fd, len: data_buffer@.len(), first: false, ok: r is Ok,
            enobufs: r is Err && is_enobufs(r->Err_0) }),
{ unimplemented!() }

// ---- specification of a successful send (taken from the property statements C01 C02 C04 C13) ----
pub open spec fn send_ok_post(k0: K, k1: K, main_tx: c_int, data: Seq<u8>, fds_in: Seq<c_int>) -> bool {
    let mrx = k0.peer[main_tx];
    let mq = k1.q[mrx];
    &&& mq == k0.q[mrx].push(mq.last())       // exactly one packet appended to the shared socket
    &&& mq.last().hdr == Some(data.len())
    &&& mq.last().data.len() <= spec_first(sys_sendbuf())
    &&& mq.last().fds.len() <= MAX_FDS_IN_CMSG
    &&& if mq.last().data.len() == data.len() {
            &&& mq.last().data == data
            &&& mq.last().fds == fds_in
            &&& k1.q == k0.q.insert(mrx, mq)
        } else {
            let ded = mq.last().fds.last();
            &&& mq.last().fds == fds_in.push(ded)
            &&& !k0.q.dom().contains(ded)
            &&& k1.sock.contains(ded)
            &&& k1.q == k0.q.insert(ded, k1.q[ded]).insert(mrx, mq)
            &&& followups_ok(k1.q[ded])
            &&& mq.last().data + flat(k1.q[ded]) == data
        }
}

// a failed send put at most one packet on the shared socket and touched no other pre-existing queue
pub open spec fn send_err_post(k0: K, k1: K, main_tx: c_int, data: Seq<u8>) -> bool {
    let mrx = k0.peer[main_tx];
    &&& (k1.q[mrx] == k0.q[mrx] || (k1.q[mrx] == k0.q[mrx].push(k1.q[mrx].last())
            && k1.q[mrx].last().hdr == Some(data.len()) && k1.q[mrx].last().data.len() < data.len()))
    &&& forall|d: c_int| k0.q.dom().contains(d) && d != mrx ==> k1.q.dom().contains(d) && #[trigger] k1.q[d] == k0.q[d]
}

// every attempt of this call that failed and was nevertheless followed by Ok(()) was a recoverable ENOBUFS
pub open spec fn failures_recoverable(l0: Seq<Attempt>, l1: Seq<Attempt>) -> bool {
    &&& l0.len() <= l1.len()
    &&& forall|i: int| 0 <= i < l0.len() ==> #[trigger] l1[i] == l0[i]
    &&& forall|i: int| l0.len() <= i < l1.len() && !(#[trigger] l1[i]).ok ==> l1[i].enobufs && l1[i].len > 2000
}

// drop(Option<OsIpcReceiver>): closes the descriptor (OsIpcReceiver::drop; close-once is the Kani ledger)
#[verifier::external_body]
pub fn drop_receiver(r: Option<OsIpcReceiver>, Tracked(k): Tracked<&mut K>)
    ensures
        final(k).q == old(k).q, final(k).peer == old(k).peer, final(k).sock == old(k).sock, final(k).log == old(k).log,
        final(k).consumed == old(k).consumed,
        final(k).own_rx == (match r { Some(x) => (if old(k).consumed.contains(cell_val(&x.fd)) { old(k).own_rx } else { old(k).own_rx.remove(cell_val(&x.fd)) }), None => old(k).own_rx }),
{ }

impl OsIpcReceiver {
    // consume_fd: the raw descriptor leaves its owner (Cell::set(-1)): from now on dropping the receiver closes nothing
    #[verifier::external_body]
    pub fn consume_fd(&self, Tracked(k): Tracked<&mut K>) -> (r: c_int)
        ensures r == cell_val(&self.fd), final(k).consumed == old(k).consumed.insert(cell_val(&self.fd)),
            final(k).q == old(k).q, final(k).peer == old(k).peer, final(k).sock == old(k).sock, final(k).log == old(k).log, final(k).own_rx == old(k).own_rx
    { unimplemented!() }
}
