"""U14 - OsIpcReceiver::{recv, try_recv, try_recv_timeout}: descriptor and blocking mode handed to unix::recv.  Verus."""
from vf.gen import Unit, Fn, Clause, AppendArg

F = "src/platform/unix/mod.rs"
G = "Tracked(&mut *g)"
TG = "Tracked(g): Tracked<&mut RxLog>"

def fn(name, mode, props):
    return Fn(F, ["impl OsIpcReceiver", name], ret="r", extra_params=TG,
        ensures=[Clause("unix.OsIpcReceiver.%s/ensures.one_receive_on_own_descriptor_in_this_mode_result_passed_through" % name,
                        "final(g).calls == old(g).calls.push((cell_val(&self.fd), %s)) && final(g).results == old(g).results.push(result_id(r))" % mode, props)],
        rules=[AppendArg("B95", r"\brecv\(", G, "unix::recv (units U3/K4) as a stub that logs descriptor and mode", min_count=1)],
        safety_props=props)

rx_recv = fn("recv", "BlockingMode::Blocking", ["C10", "C01"])
rx_try = fn("try_recv", "BlockingMode::Nonblocking", ["C10"])
rx_timeout = fn("try_recv_timeout", "BlockingMode::Timeout(duration)", ["C10"])

UNIT = Unit(
    name="u14_rxmodes",
    prelude=["units/common.rs", "units/u14_rxmodes.rs"],
    groups=[("impl OsIpcReceiver", [rx_recv, rx_try, rx_timeout])],
    props=["C10", "C01"],
    kernel_clauses=["unix::recv behaves as specified in units U3 (reassembly) and K4 (UnixCmsg::recv per blocking mode)"],
)
