"""U4b - error conversions: what a receive error looks like to the user (Empty / Disconnected / Io).  Verus, loop-free."""
from vf.gen import Unit, Fn, Clause, Rule

F = "src/platform/unix/mod.rs"
R_IO = Rule("B12", r"io::Error::from\((\w+)\)", r"io_error_from(\1)", "From<UnixError> for io::Error -> stub")

try_recv = Fn(F, ["impl From<UnixError> for ipc::TryRecvError", "from"], ret="r",
    ensures=[
        Clause("unix.conv.TryRecvError/ensures.empty_iff_would_block",
               "(r is Empty) <==> (error matches UnixError::Errno(c) && (c == EAGAIN || c == EWOULDBLOCK))", ["C10", "C03"]),
        Clause("unix.conv.TryRecvError/ensures.disconnected_iff_channel_closed",
               "(r matches ipc::TryRecvError::IpcError(ipc::IpcError::Disconnected)) <==> (error is ChannelClosed)", ["C03", "C10", "C12"]),
    ], rules=[R_IO], safety_props=["C18"])

ipc_err = Fn(F, ["impl From<UnixError> for ipc::IpcError", "from"], ret="r",
    ensures=[
        Clause("unix.conv.IpcError/ensures.disconnected_iff_channel_closed",
               "(r is Disconnected) <==> (error is ChannelClosed)", ["C03", "C12", "C09"]),
    ], rules=[R_IO], safety_props=["C18"])

is_closed = Fn(F, ["impl UnixError", "channel_is_closed"], ret="r",
    ensures=[Clause("unix.conv.channel_is_closed/ensures.only_channel_closed", "r <==> (*self is ChannelClosed)", ["C03", "C12", "C06"])],
    safety_props=["C18"])

to_io = Fn(F, ["impl From<UnixError> for io::Error", "from"], ret="r",
    ensures=[
        Clause("unix.conv.io_error/ensures.os_error_code_preserved",
               "(unix_error matches UnixError::Errno(c) ==> io_raw(r) == Some(c)) && (unix_error is ChannelClosed ==> io_raw(r) is None)\n"
               "&& (unix_error matches UnixError::IoError(e) ==> r == e)", ["C09", "C03"]),
    ],
    rules=[Rule("B15", r"io::Error::new\(io::ErrorKind::ConnectionReset, unix_error\)", "io_error_connection_reset(unix_error)", "io::Error::new(kind, payload) -> stub (no OS code)")],
    safety_props=["C18"])

UNIT = Unit(
    name="u4_conv",
    prelude=["units/common.rs", "units/u4_conv.rs"],
    groups=[("impl ipc::TryRecvError", [try_recv]), ("impl ipc::IpcError", [ipc_err]), ("impl UnixError", [is_closed]), ("impl UnixErrorToIo", [to_io])],
    props=["C03", "C10", "C12", "C09"],
    kernel_clauses=["EAGAIN == EWOULDBLOCK == 11 (x86_64-linux-gnu)"],
)
