"""U9 - error-path descriptor ledger of OsIpcOneShotServer::{new, accept}.  Verus."""
from vf.gen import Unit, Fn, Clause, Hint, Rule, AppendArg, MutSelf

F = "src/platform/unix/mod.rs"
LG = "Tracked(&mut *l)"
TL = "Tracked(l): Tracked<&mut L>"

accept = Fn(F, ["impl OsIpcOneShotServer", "accept"], ret="r", extra_params=TL,
    requires=[Clause("unix.accept/requires.ledger_wf", "old(l).owned.subset_of(old(l).open)")],
    ensures=[
        Clause("unix.accept/ensures.no_descriptor_left_unowned",
               "no_new_unowned(*old(l), *final(l))", ["C11"]),
        Clause("unix.accept/ensures.receiver_owns_the_connection",
               "r matches Ok((rx, _, _, _)) ==> final(l).owned.contains(cell_val(&rx.fd)) && final(l).open.contains(cell_val(&rx.fd))", ["C11", "C08"]),
    ],
    hints=[Hint("body:start", "proof { lemma_cloexec_bit(); }")],
    rules=[
        Rule("E7", r"let sockaddr: \*mut sockaddr = ptr::null_mut\(\);\s*let sockaddr_len: \*mut socklen_t = ptr::null_mut\(\);", "/* E7: NULL address out-parameters elided */",
             "raw null pointers for accept4's unused out-parameters"),
        Rule("B40", r"libc::accept4?\(\s*self\.fd,\s*(?:sockaddr|ptr::null_mut\(\)),\s*(?:sockaddr_len|ptr::null_mut\(\))(?:,\s*([A-Za-z_0-9:| ]+))?,?\s*\)", r"k_accept4(self.fd, 0 | \1, %s)" % LG,
             "accept4 stub over the descriptor ledger (flags kept)", min_count=1),
        AppendArg("B41", r"OsIpcReceiver::from_fd\(", LG, "ownership hand-over recorded in the ledger", min_count=1),
    ],
    safety_props=["C11", "C18"])

server_new = Fn(F, ["impl OsIpcOneShotServer", "new"], ret="r", extra_params=TL,
    requires=[Clause("unix.server_new/requires.ledger_wf", "old(l).owned.subset_of(old(l).open)")],
    ensures=[
        Clause("unix.server_new/ensures.no_descriptor_left_unowned", "no_new_unowned(*old(l), *final(l))", ["C11"]),
        Clause("unix.server_new/ensures.server_owns_the_listener",
               "r matches Ok((srv, _)) ==> final(l).owned.contains(srv.fd) && final(l).open.contains(srv.fd)", ["C11", "C08"]),
    ],
    hints=[Hint("body:start", "proof { lemma_cloexec_bit(); }")],
    rules=[
        AppendArg("B42", r"libc::socket\(", LG, "socket stub over the descriptor ledger", rename="k_socket", min_count=1),
        Rule("B43", r"libc::bind\(\s*fd,\s*&sockaddr as \*const _ as \*const sockaddr,\s*len as socklen_t,\s*\)", "k_bind(fd)", "bind stub (any result)", min_count=1),
        Rule("B44", r"libc::listen\(", "k_listen(", "listen stub (any result)", min_count=1),
        AppendArg("B45", r"libc::close\(", LG, "close stub over the ledger", rename="k_close"),
        Rule("B46", r"OsIpcOneShotServer \{\s*fd,\s*_temp_dir: temp_dir,\s*\}", "mk_server(fd, temp_dir, %s)" % LG,
             "struct literal -> constructor stub that records the ownership hand-over", min_count=1),
        Rule("D19", r"path_string\.to_string\(\)", "str_to_string(path_string)", "str::to_string"),
        Rule("D20", r"libc::AF_UNIX", "libc_af::AF_UNIX", "constant"),
    ],
    safety_props=["C11", "C18"])

UNIT = Unit(
    name="u9_ledger",
    prelude=["units/common.rs", "units/u9_ledger.rs"],
    groups=[("impl OsIpcOneShotServer", [server_new, accept])],
    props=["C11", "C08"],
    prelude_clauses={
        "unix.accept/requires.accepted_descriptor_is_close_on_exec": ["C11"],
        "unix.server_new/requires.socket_is_close_on_exec": ["C11"],
        "unix.server/requires.close_only_raw_open_descriptors": ["C11"],
    },
    kernel_clauses=[
        "socket/accept4 return a descriptor not in use before, or fail; bind, listen, setsockopt, mkdtemp may fail arbitrarily",
        "a descriptor handed to OsIpcReceiver::from_fd / the OsIpcOneShotServer literal is closed by that value's Drop (Kani ledger for the receiver)",
    ],
)
