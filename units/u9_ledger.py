"""U9 - error-path descriptor ledger of OsIpcOneShotServer::{new, accept}.  Verus."""
from vf.gen import Unit, Fn, Clause, Hint, Rule, AppendArg, MutSelf

F = "src/platform/unix/mod.rs"
LG = "Tracked(&mut *l)"
TL = "Tracked(l): Tracked<&mut L>"

accept = Fn(F, ["impl OsIpcOneShotServer", "accept"], ret="r", extra_params=TL,
    requires=[Clause("unix.accept/requires.ledger_wf", "old(l).owned.subset_of(old(l).open)"),
              Clause("unix.accept/requires.server_is_listening", "old(l).listening.contains(self.fd) && old(l).owned.contains(self.fd) && old(l).open.contains(self.fd)")],
    ensures=[
        Clause("unix.accept/ensures.receiver_is_one_connection_taken_from_this_servers_queue",
               "r matches Ok((rx, _, _, _)) ==> final(l).conn_of.contains_key(cell_val(&rx.fd)) && final(l).conn_of[cell_val(&rx.fd)] == self.fd\n"
               "&& !old(l).open.contains(cell_val(&rx.fd))", ["C08"]),
        Clause("unix.accept/ensures.first_message_is_the_first_read_on_that_connection",
               "r matches Ok((rx, data, channels, regions)) ==> final(l).reads == old(l).reads.push(cell_val(&rx.fd))\n"
               "&& final(l).got == Some((cell_val(&rx.fd), data@, channels@, regions@))", ["C08"]),
        Clause("unix.accept/ensures.queued_data_survives_the_clients_exit",
               "r matches Ok((rx, _, _, _)) ==> final(l).lingering.contains(cell_val(&rx.fd))", ["C08"]),
        Clause("unix.accept/ensures.no_descriptor_left_unowned",
               "no_new_unowned(*old(l), *final(l))", ["C11", "C08"]),
        Clause("unix.accept/ensures.receiver_owns_the_connection",
               "r matches Ok((rx, _, _, _)) ==> final(l).owned.contains(cell_val(&rx.fd)) && final(l).open.contains(cell_val(&rx.fd))", ["C11", "C08"]),
    ],
    hints=[Hint("body:start", "proof { lemma_cloexec_bit(); }")],
    rules=[
        Rule("E7", r"let sockaddr: \*mut sockaddr = ptr::null_mut\(\);\s*let sockaddr_len: \*mut socklen_t = ptr::null_mut\(\);", "/* E7: NULL address out-parameters elided */",
             "raw null pointers for accept4's unused out-parameters"),
        Rule("B40", r"libc::accept4?\(\s*self\.fd,\s*(?:sockaddr|ptr::null_mut\(\)),\s*(?:sockaddr_len|ptr::null_mut\(\))(?:,\s*([A-Za-z_0-9:| ]+))?,?\s*\)", r"k_accept4(self.fd, 0 | \1, %s)" % LG,
             "accept4 stub over the descriptor ledger (flags kept)", min_count=1),
        AppendArg("B41", r"OsIpcReceiver::from_fd\(", LG, "ownership hand-over recorded in the ledger", min_count=1),
        AppendArg("B47", r"\brecv\(", LG, "whole-message receive (unit U3) as a stub that logs the descriptor read and what came back", min_count=1),
        AppendArg("B48", r"make_socket_lingering\(", LG, "setsockopt(SO_LINGER) stub"),
        AppendArg("B45", r"libc::close\(", LG, "close stub over the ledger (only raw, un-owned descriptors may be closed by hand)", rename="k_close"),
    ],
    safety_props=["C11", "C18"])

server_new = Fn(F, ["impl OsIpcOneShotServer", "new"], ret="r", extra_params=TL,
    requires=[Clause("unix.server_new/requires.ledger_wf", "old(l).owned.subset_of(old(l).open)")],
    ensures=[
        Clause("unix.server_new/ensures.no_descriptor_left_unowned", "no_new_unowned(*old(l), *final(l))", ["C11", "C08"]),
        Clause("unix.server_new/ensures.server_owns_the_listener",
               "r matches Ok((srv, _)) ==> final(l).owned.contains(srv.fd) && final(l).open.contains(srv.fd)", ["C11", "C08"]),
        Clause("unix.server_new/ensures.name_is_the_path_the_listening_socket_is_bound_to",
               "r matches Ok((srv, name)) ==> final(l).listening.contains(srv.fd) && final(l).bound.contains_key(srv.fd)\n"
               "&& final(l).bound[srv.fd] == string_path(name)", ["C08"]),
        Clause("unix.server_new/ensures.socket_file_lives_in_the_servers_own_temp_dir",
               "r matches Ok((srv, name)) ==> parent(string_path(name)) == dir_path(srv._temp_dir.id)", ["C08", "C11"]),
        Clause("unix.server_new/ensures.failure_leaves_no_rendezvous_behind",
               "r is Err ==> forall|fd: c_int| #[trigger] final(l).open.contains(fd) && !old(l).open.contains(fd) ==> false", ["C08", "C11"]),
    ],
    hints=[Hint("body:start", "proof { lemma_cloexec_bit(); }")],
    rules=[
        AppendArg("B42", r"libc::socket\(", LG, "socket stub over the descriptor ledger", rename="k_socket", min_count=1),
        Rule("B43", r"libc::bind\(\s*(\w+),\s*&(\w+) as \*const _ as \*const sockaddr,\s*(\w+) as socklen_t,?\s*\)", r"k_bind(\1, &\2, \3, %s)" % LG,
             "bind stub (any result; on success the socket is bound to the path in the sockaddr)", min_count=1),
        AppendArg("B44", r"libc::listen\(", LG, "listen stub (any result)", rename="k_listen", min_count=1),
        AppendArg("B45", r"libc::close\(", LG, "close stub over the ledger", rename="k_close"),
        Rule("B46", r"OsIpcOneShotServer \{\s*fd,\s*_temp_dir: temp_dir,\s*\}", "mk_server(fd, temp_dir, %s)" % LG,
             "struct literal -> constructor stub that records the ownership hand-over", min_count=1),
        Rule("D19", r"path_string\.to_string\(\)", "str_to_string(path_string)", "str::to_string"),
        Rule("D20", r"libc::AF_UNIX", "libc_af::AF_UNIX", "constant"),
    ],
    safety_props=["C11", "C18"])

connect = Fn(F, ["impl OsIpcSender", "connect"], ret="r", extra_params=TL,
    requires=[Clause("unix.connect/requires.ledger_wf", "old(l).owned.subset_of(old(l).open)")],
    ensures=[
        Clause("unix.connect/ensures.no_descriptor_left_unowned", "no_new_unowned(*old(l), *final(l))", ["C11", "C08"]),
        Clause("unix.connect/ensures.sender_is_connected_to_the_named_server",
               "r matches Ok(s) ==> final(l).connected.contains_key(s.fd) && final(l).connected[s.fd] == string_path(name)\n"
               "&& final(l).owned.contains(s.fd) && final(l).open.contains(s.fd)", ["C08"]),
        Clause("unix.connect/ensures.failure_leaves_nothing_behind",
               "r is Err ==> forall|fd: c_int| #[trigger] final(l).open.contains(fd) && !old(l).open.contains(fd) ==> false", ["C08", "C11"]),
    ],
    hints=[Hint("body:start", "proof { lemma_cloexec_bit(); }")],
    rules=[
        Rule("D28", r"CString::new\(name\)", "CString::from_string(name)", "CString::new at argument type String", min_count=1),
        AppendArg("B42", r"libc::socket\(", LG, "socket stub over the descriptor ledger", rename="k_socket", min_count=1),
        Rule("B49", r"libc::connect\(\s*(\w+),\s*&(\w+) as \*const _ as \*const sockaddr,\s*(\w+) as socklen_t,?\s*\)", r"k_connect(\1, &\2, \3, %s)" % LG,
             "connect(2) stub (any result)", min_count=1),
        AppendArg("B45", r"libc::close\(", LG, "close stub over the ledger", rename="k_close"),
        AppendArg("B51", r"OsIpcSender::from_fd\(", LG, "ownership hand-over recorded in the ledger", min_count=1),
        Rule("D20", r"libc::AF_UNIX", "libc_af::AF_UNIX", "constant"),
    ],
    safety_props=["C11", "C18"])

server_drop = Fn(F, ["impl Drop for OsIpcOneShotServer", "drop"], extra_params=TL,
    requires=[Clause("unix.server_drop/requires.server_owns_its_listener", "old(l).open.contains(old(self).fd) && old(l).owned.contains(old(self).fd)")],
    ensures=[
        Clause("unix.server_drop/ensures.listener_closed_exactly_once_nothing_else",
               "final(l).open == old(l).open.remove(old(self).fd) && final(l).owned == old(l).owned.remove(old(self).fd) && final(self).fd == old(self).fd", ["C08", "C11"]),
    ],
    rules=[AppendArg("B52", r"libc::close\(", LG, "close issued by the owner's Drop", rename="k_close_owned", min_count=1)],
    safety_props=["C08", "C11"])

UNIT = Unit(
    name="u9_ledger",
    prelude=["units/common.rs", "units/u9_ledger.rs"],
    groups=[("impl OsIpcOneShotServer", [server_new, accept]), ("impl OsIpcSender", [connect]), ("impl OsIpcOneShotServer", [server_drop])],
    props=["C11", "C08"],
    prelude_clauses={
        "unix.accept/requires.accepted_descriptor_is_close_on_exec": ["C11", "C08"],
        "unix.server_new/requires.socket_is_close_on_exec": ["C11", "C08"],
        "unix.server/requires.close_only_raw_open_descriptors": ["C11", "C08"],
        "unix.server_drop/requires.closes_only_its_own_open_descriptor": ["C08", "C11"],
        "unix.accept/requires.accepts_on_a_listening_socket": ["C08"],
        "unix.accept/requires.first_message_awaited_blocking": ["C08"],
        "unix.server_new/requires.listen_queue_holds_a_client_that_connects_before_accept": ["C08"],
        "unix.server_new/requires.listens_on_the_bound_socket": ["C08"],
    },
    kernel_clauses=[
        "socket/accept4 return a descriptor not in use before, or fail; bind, listen, setsockopt, mkdtemp may fail arbitrarily",
        "a descriptor handed to OsIpcReceiver::from_fd / OsIpcSender::from_fd / the OsIpcOneShotServer literal is closed by that value's Drop (Kani ledger for receiver and sender)",
        "rendezvous (C08): a client that connect(2)s to the path a listening socket is bound to lands in that socket's queue (backlog >= 1) whether accept has been called or not; accept4 takes the oldest queued connection; data queued on a connection survives the client's exit; tempfile's TempDir is a fresh, distinctly named directory which its Drop removes with the socket file inside; paths fit sun_path",
    ],
)
