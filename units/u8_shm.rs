// ---------------------------------------------------------------------------
// U8 prelude: shared memory regions (src/platform/unix/mod.rs 757-903).
// Ghost memory/file model M; shm_open/ftruncate/mmap/munmap/dup are stubs.
// ---------------------------------------------------------------------------
#[allow(non_camel_case_types)] pub type c_void = u8;

pub assume_specification<T: std::marker::PointeeSized> [<*mut T>::is_null] (p: *mut T) -> (r: bool)
    ensures r == (p@.addr == 0);

pub struct M {
    pub fdfile: Map<c_int, int>,            // open backing-store descriptors -> file object (dup shares the object)
    pub content: Map<int, Seq<u8>>,         // file object -> bytes (MAP_SHARED: a mapping reads and writes these)
    pub maps: Map<usize, (int, nat)>,       // live mappings: address -> (file object, length)
}

pub struct BackingStore { pub fd: c_int }
pub struct OsIpcSharedMemory { pub ptr: *mut u8, pub length: usize, pub store: BackingStore }

pub open spec fn zeros(n: nat) -> Seq<u8> { Seq::new(n, |i: int| 0u8) }

impl BackingStore {
    // BackingStore::new(length): shm_open(O_CREAT|O_EXCL) + shm_unlink + ftruncate(length)  (or memfd_create): a fresh
    // descriptor for a fresh file object of `length` zero bytes
    #[verifier::external_body]
    pub fn new(length: usize, Tracked(m): Tracked<&mut M>) -> (r: BackingStore)
        ensures
            !old(m).fdfile.dom().contains(r.fd),
            !old(m).content.dom().contains(final(m).fdfile[r.fd]),
            final(m).fdfile == old(m).fdfile.insert(r.fd, final(m).fdfile[r.fd]),
            final(m).content == old(m).content.insert(final(m).fdfile[r.fd], zeros(length as nat)),
            final(m).maps == old(m).maps,
    { unimplemented!() }

    // map_file: length = caller's or fstat's; 0 -> (null, 0) without mmap; else mmap(PROT_READ|PROT_WRITE, MAP_SHARED)
    #[verifier::external_body]
    pub fn map_file(&self, length: Option<usize>, Tracked(m): Tracked<&mut M>) -> (r: (*mut u8, usize))
        requires
            old(m).fdfile.dom().contains(self.fd) && old(m).content.dom().contains(old(m).fdfile[self.fd]),
            length matches Some(l) ==> l <= old(m).content[old(m).fdfile[self.fd]].len(), //@@clause:unix.map_file/requires.mapping_not_longer_than_file
        ensures
            final(m).fdfile == old(m).fdfile, final(m).content == old(m).content,
            r.1 == (match length { Some(l) => l as nat, None => old(m).content[old(m).fdfile[self.fd]].len() }),
            r.1 == 0 ==> r.0@.addr == 0 && final(m).maps == old(m).maps,
            r.1 > 0 ==> r.0@.addr != 0 && !old(m).maps.dom().contains(r.0@.addr)
                && final(m).maps == old(m).maps.insert(r.0@.addr, (old(m).fdfile[self.fd], r.1 as nat)),
    { unimplemented!() }
}

// fcntl(fd, F_DUPFD_CLOEXEC, 0): a new close-on-exec descriptor for the same file object
#[verifier::external_body]
pub fn k_fcntl_dup(fd: c_int, cmd: c_int, arg: c_int, Tracked(m): Tracked<&mut M>) -> (r: c_int)
    requires old(m).fdfile.dom().contains(fd),
        cmd == libc::F_DUPFD_CLOEXEC, //@@clause:unix.shm.clone/requires.duplicate_is_close_on_exec
    ensures !old(m).fdfile.dom().contains(r), final(m).fdfile == old(m).fdfile.insert(r, old(m).fdfile[fd]),
        final(m).content == old(m).content, final(m).maps == old(m).maps
{ unimplemented!() }
// plain libc::dup: the copy would be inherited by every child the program spawns
#[verifier::external_body]
pub fn k_dup(fd: c_int, Tracked(m): Tracked<&mut M>) -> (r: c_int)
    requires old(m).fdfile.dom().contains(fd),
        false, //@@clause:unix.shm.clone/requires.duplicate_is_close_on_exec
    ensures !old(m).fdfile.dom().contains(r), final(m).fdfile == old(m).fdfile.insert(r, old(m).fdfile[fd]),
        final(m).content == old(m).content, final(m).maps == old(m).maps
{ unimplemented!() }

// ptr::copy_nonoverlapping(bytes.as_ptr(), address, bytes.len()) into a mapping
#[verifier::external_body]
pub fn copy_into_mapping(bytes: &[u8], address: *mut u8, count: usize, Tracked(m): Tracked<&mut M>)
    requires
        count == bytes@.len(),
        count > 0 ==> old(m).maps.dom().contains(address@.addr) && old(m).maps[address@.addr].1 >= count, //@@clause:unix.copy_into_mapping/requires.write_inside_mapping
        count > 0 ==> old(m).content.dom().contains(old(m).maps[address@.addr].0) && old(m).content[old(m).maps[address@.addr].0].len() >= count,
    ensures
        final(m).fdfile == old(m).fdfile, final(m).maps == old(m).maps,
        count == 0 ==> final(m).content == old(m).content,
        count > 0 ==> ({ let f = old(m).maps[address@.addr].0;
            final(m).content == old(m).content.insert(f, bytes@ + old(m).content[f].subrange(count as int, old(m).content[f].len() as int)) }),
{ unimplemented!() }

// E4: `for element in slice::from_raw_parts_mut(address, length) { *element = byte; }`
#[verifier::external_body]
pub fn fill_region(address: *mut u8, length: usize, byte: u8, Tracked(m): Tracked<&mut M>)
    requires
        address@.addr != 0, //@@clause:std.from_raw_parts_mut/requires.non_null
        old(m).maps.dom().contains(address@.addr) && old(m).maps[address@.addr].1 >= length, //@@clause:unix.fill_region/requires.write_inside_mapping
        old(m).content.dom().contains(old(m).maps[address@.addr].0) && old(m).content[old(m).maps[address@.addr].0].len() >= length,
    ensures
        final(m).fdfile == old(m).fdfile, final(m).maps == old(m).maps,
        ({ let f = old(m).maps[address@.addr].0;
           final(m).content == old(m).content.insert(f, Seq::new(length as nat, |i: int| byte) + old(m).content[f].subrange(length as int, old(m).content[f].len() as int)) }),
{ unimplemented!() }

// slice::from_raw_parts(ptr, len) over a mapping
#[verifier::external_body]
pub fn raw_slice<'a>(p: *mut u8, n: usize, Tracked(m): Tracked<&M>) -> (r: &'a [u8])
    requires
        p@.addr != 0, //@@clause:std.from_raw_parts/requires.non_null
        m.maps.dom().contains(p@.addr) && m.maps[p@.addr].1 >= n, //@@clause:unix.raw_slice/requires.read_inside_mapping
        m.content.dom().contains(m.maps[p@.addr].0) && m.content[m.maps[p@.addr].0].len() >= n,
    ensures r@ == m.content[m.maps[p@.addr].0].subrange(0, n as int)
{ unimplemented!() }

// libc::munmap(ptr, len)
#[verifier::external_body]
pub fn k_munmap(p: *mut u8, len: usize, Tracked(m): Tracked<&mut M>) -> (r: c_int)
    requires
        old(m).maps.dom().contains(p@.addr) && old(m).maps[p@.addr].1 == len, //@@clause:unix.munmap/requires.exactly_the_mapping
    ensures r == 0, final(m).maps == old(m).maps.remove(p@.addr), final(m).fdfile == old(m).fdfile, final(m).content == old(m).content
{ unimplemented!() }

pub mod thread { #[verifier::external_body] pub fn panicking() -> bool { unimplemented!() } }

impl OsIpcSharedMemory {
    pub open spec fn file(&self, m: M) -> int { m.fdfile[self.store.fd] }
    // representation invariant
    pub open spec fn wf(&self, m: M) -> bool {
        &&& (self.ptr@.addr == 0 <==> self.length == 0)
        &&& m.fdfile.dom().contains(self.store.fd) && m.content.dom().contains(self.file(m))
        &&& m.content[self.file(m)].len() >= self.length
        &&& self.length > 0 ==> m.maps.dom().contains(self.ptr@.addr) && m.maps[self.ptr@.addr] == (self.file(m), self.length as nat)
    }
    // the bytes a reader of this region sees
    pub open spec fn bytes(&self, m: M) -> Seq<u8> { m.content[self.file(m)].subrange(0, self.length as int) }
}

// src/ipc.rs
pub struct IpcSharedMemory { pub os_shared_memory: Option<OsIpcSharedMemory> }
impl IpcSharedMemory {
    pub open spec fn wf(&self, m: M) -> bool { self.os_shared_memory matches Some(o) ==> o.wf(m) }
    pub open spec fn bytes(&self, m: M) -> Seq<u8> { match self.os_shared_memory { Some(o) => o.bytes(m), None => Seq::empty() } }
}
