// ---------------------------------------------------------------------------
// U5 prelude: OsIpcReceiverSet::{add, select} (src/platform/unix/mod.rs 485-589).
// mio (epoll) is a dependency: Poll / Events / Token are stand-ins over a ghost
// world S.  unix::recv is the stub whose contract unit U3 proves.
// ---------------------------------------------------------------------------
use std::collections::HashMap;
pub const EWOULDBLOCK: c_int = 11;
pub const EAGAIN: c_int = 11;
pub type RawFd = c_int;

#[derive(Copy, Clone)]
pub enum BlockingMode { Blocking, Nonblocking, Timeout(std::time::Duration) }

#[derive(PartialEq, Eq, Hash, Clone, Copy)]
pub struct Token(pub usize);
// Token's derived Hash/Eq behave like the usize they wrap (needed to reason about HashMap<Token, _>)
#[verifier::external_body]
pub broadcast proof fn axiom_token_key_model() ensures #[trigger] vstd::std_specs::hash::obeys_key_model::<Token>() { }

#[derive(Clone, Copy)]
pub struct PollEntry { pub id: u64, pub fd: RawFd }

pub struct Event { pub token: Token, pub readable: bool }
impl Event {
    pub fn token(&self) -> (r: Token) ensures r == self.token { self.token }
    pub fn is_readable(&self) -> (r: bool) ensures r == self.readable { self.readable }
}
pub struct Events { pub v: Vec<Event> }
impl Events {
    pub fn is_empty(&self) -> (r: bool) ensures r == (self.v@.len() == 0) { self.v.len() == 0 }
}
pub struct RangeFromU64 { pub start: u64 }     // std::ops::RangeFrom<u64>
impl RangeFromU64 {
    // Iterator::next on RangeFrom: overflow panics (debug) / wraps (release) at u64::MAX
    pub fn next(&mut self) -> (r: Option<u64>)
        requires old(self).start < u64::MAX, //@@clause:unix.set.add/requires.id_counter_not_exhausted
        ensures r == Some(old(self).start), final(self).start == old(self).start + 1
    { let v = self.start; self.start = self.start + 1; Some(v) }
}
pub enum IoErrorKind { Interrupted, Other }
pub struct IoError { pub kind: IoErrorKind }
impl IoError { pub fn kind(&self) -> (r: IoErrorKind) ensures r == self.kind { match self.kind { IoErrorKind::Interrupted => IoErrorKind::Interrupted, IoErrorKind::Other => IoErrorKind::Other } } }
pub mod io { pub use super::IoErrorKind as ErrorKind; }
impl PartialEq for IoErrorKind {
    #[verifier::external_body]
    fn eq(&self, other: &IoErrorKind) -> (r: bool) ensures r == (*self == *other) { unimplemented!() }
}

pub enum RxEv { Data(RawFd, Seq<u8>), Closed(RawFd) }
pub struct S {
    pub registered: Map<Token, RawFd>,     // epoll interest list
    pub open: Set<RawFd>,                  // descriptors owned by the set
    pub rx: Seq<RxEv>,                     // every message / closure observed on a member, in order
    pub drained: Set<RawFd>,               // members whose last non-blocking read said "would block" or "closed" since they were last reported ready
    pub polled_nonempty: bool,
    pub taken: Set<RawFd>,                 // descriptors moved out of their owning OsIpcReceiver (consume_fd) into a raw integer
}

pub struct Poll { pub _p: () }
impl Poll {
    // mio Poll::poll(&mut events, None): epoll_wait.  Edge-triggered: a member is reported when data ARRIVES;
    // it is reported again only if it was drained in between (this is why select must drain).
    #[verifier::external_body]
    pub fn poll(&mut self, events: &mut Events, timeout: Option<std::time::Duration>, Tracked(s): Tracked<&mut S>) -> (r: Result<(), IoError>)
        ensures
            final(s).registered == old(s).registered, final(s).open == old(s).open, final(s).rx == old(s).rx, final(s).taken == old(s).taken,
            r is Ok ==> {
                &&& final(events).v@.len() <= 10
                &&& forall|i: int| 0 <= i < final(events).v@.len() ==> (#[trigger] final(events).v@[i]).readable && old(s).registered.dom().contains(final(events).v@[i].token)
                &&& forall|i: int, j: int| 0 <= i < j < final(events).v@.len() ==> (#[trigger] final(events).v@[i]).token != (#[trigger] final(events).v@[j]).token
                &&& forall|i: int| 0 <= i < final(events).v@.len() ==> !final(s).drained.contains(old(s).registered[(#[trigger] final(events).v@[i]).token])
                &&& forall|fd: RawFd| !(exists|i: int| 0 <= i < final(events).v@.len() && old(s).registered[(#[trigger] final(events).v@[i]).token] == fd) ==> (final(s).drained.contains(fd) <==> old(s).drained.contains(fd))
            },
            r is Err ==> final(events).v@.len() == 0 && final(s).drained == old(s).drained,
            final(s).polled_nonempty == (r is Ok && final(events).v@.len() > 0),
    { unimplemented!() }

    // self.poll.registry().register(&mut SourceFd(&fd), token, Interest::READABLE) with `?`'s io::Error -> UnixError conversion
    #[verifier::external_body]
    pub fn register_fd(&self, fd: RawFd, token: Token, Tracked(s): Tracked<&mut S>) -> (r: Result<(), UnixError>)
        ensures
            final(s).rx == old(s).rx, final(s).drained == old(s).drained, final(s).polled_nonempty == old(s).polled_nonempty, final(s).taken == old(s).taken,
            r is Ok ==> final(s).registered == old(s).registered.insert(token, fd) && final(s).open == old(s).open.insert(fd),   // the set now owns the descriptor
            r is Err ==> final(s).registered == old(s).registered && final(s).open == old(s).open,
    { unimplemented!() }

    // the same registration written out through mio's own types (`let registry = self.poll.registry(); registry.register(..)`)
    #[verifier::external_body]
    pub fn registry(&self) -> (r: Registry) { unimplemented!() }

    // self.poll.registry().deregister(&mut SourceFd(&fd))
    #[verifier::external_body]
    pub fn deregister_fd(&self, fd: RawFd, Tracked(s): Tracked<&mut S>) -> (r: Result<(), IoError>)
        requires old(s).registered.dom().contains(Token(fd as usize)) && old(s).registered[Token(fd as usize)] == fd, //@@clause:unix.set.deregister/requires.registered
        ensures
            r is Ok,
            final(s).open == old(s).open, final(s).rx == old(s).rx, final(s).drained == old(s).drained, final(s).polled_nonempty == old(s).polled_nonempty,
            final(s).registered == old(s).registered.remove(Token(fd as usize)),
    { unimplemented!() }
}
impl std::fmt::Debug for IoError { #[verifier::external_body] fn fmt(&self, f: &mut std::fmt::Formatter<'_>) -> std::fmt::Result { unimplemented!() } }

pub struct OsOpaqueIpcChannel { pub fd: c_int }
pub struct OsIpcSharedMemory { pub _p: () }
pub struct OsIpcReceiver { pub fd: std::cell::Cell<c_int> }
#[verifier::external_type_specification]
#[verifier::external_body]
#[verifier::reject_recursive_types(T)]
pub struct ExCell<T: ?Sized>(std::cell::Cell<T>);
pub uninterp spec fn cell_val<T>(c: &std::cell::Cell<T>) -> T;
pub assume_specification<T: Copy> [std::cell::Cell::<T>::get] (c: &std::cell::Cell<T>) -> (r: T)
    ensures r == cell_val(c);
impl OsIpcReceiver {
    // consume_fd: Cell get + set(-1) (the move itself is the Kani K-ledger harness on the real function)
    #[verifier::external_body]
    pub fn consume_fd(&self, Tracked(s): Tracked<&mut S>) -> (r: c_int)
        ensures r == cell_val(&self.fd), final(s).taken == old(s).taken.insert(cell_val(&self.fd)),
            final(s).registered == old(s).registered, final(s).open == old(s).open, final(s).rx == old(s).rx,
            final(s).drained == old(s).drained, final(s).polled_nonempty == old(s).polled_nonempty
    { unimplemented!() }
}
impl UnixError {
    #[verifier::external_body]
    pub fn last() -> (r: UnixError) ensures r is Errno { unimplemented!() }
    pub fn channel_is_closed(&self) -> (r: bool) ensures r == (*self is ChannelClosed) { matches!(self, UnixError::ChannelClosed) }   // proved in U4b
}

// unix::recv(fd, Nonblocking) as seen by the set (contract proved in U3/K4): a whole message, "would block", closed, or another error
#[verifier::external_body]
pub fn recv(fd: c_int, blocking_mode: BlockingMode, Tracked(s): Tracked<&mut S>) -> (r: Result<(Vec<u8>, Vec<OsOpaqueIpcChannel>, Vec<OsIpcSharedMemory>), UnixError>)
    requires
        old(s).open.contains(fd), //@@clause:unix.set.recv/requires.descriptor_still_owned
        blocking_mode is Nonblocking, //@@clause:unix.set.recv/requires.nonblocking
    ensures
        final(s).registered == old(s).registered, final(s).open == old(s).open, final(s).polled_nonempty == old(s).polled_nonempty,
        r matches Ok((d, c, m)) ==> final(s).rx == old(s).rx.push(RxEv::Data(fd, d@)) && final(s).drained == old(s).drained.remove(fd),
        r matches Err(e) ==> (if e is ChannelClosed { final(s).rx == old(s).rx.push(RxEv::Closed(fd)) } else { final(s).rx == old(s).rx }),
        r matches Err(e) ==> (if e is ChannelClosed || (e matches UnixError::Errno(c) && c == EWOULDBLOCK) { final(s).drained == old(s).drained.insert(fd) } else { final(s).drained == old(s).drained.remove(fd) }),
{ unimplemented!() }

// libc::close(fd) of a member
#[verifier::external_body]
pub fn k_close(fd: c_int, Tracked(s): Tracked<&mut S>) -> (r: c_int)
    requires old(s).open.contains(fd), //@@clause:unix.set.close/requires.owned_and_open
    ensures final(s).open == old(s).open.remove(fd), final(s).registered == old(s).registered, final(s).rx == old(s).rx,
        final(s).drained == old(s).drained, final(s).polled_nonempty == old(s).polled_nonempty
{ unimplemented!() }

pub enum OsIpcSelectionResult {
    DataReceived(u64, Vec<u8>, Vec<OsOpaqueIpcChannel>, Vec<OsIpcSharedMemory>),
    ChannelClosed(u64),
}
pub struct OsIpcReceiverSet {
    pub incrementor: RangeFromU64,
    pub poll: Poll,
    pub pollfds: HashMap<Token, PollEntry>,
    pub events: Events,
}
impl OsIpcReceiverSet {
    // representation invariant: the map, the epoll interest list and the owned descriptors agree; ids are unique and below the counter
    pub open spec fn wf(&self, s: S) -> bool {
        &&& self.pollfds@.dom() == s.registered.dom()
        &&& forall|t: Token| #[trigger] self.pollfds@.contains_key(t) ==> self.pollfds@[t].fd == s.registered[t] && self.pollfds@[t].fd as usize == t.0
                && s.open.contains(self.pollfds@[t].fd) && self.pollfds@[t].id < self.incrementor.start && self.pollfds@[t].fd >= 0
        &&& forall|t: Token, u: Token| #[trigger] self.pollfds@.contains_key(t) && #[trigger] self.pollfds@.contains_key(u) && t != u
                ==> self.pollfds@[t].id != self.pollfds@[u].id && self.pollfds@[t].fd != self.pollfds@[u].fd
        &&& forall|fd: RawFd| #[trigger] s.open.contains(fd) ==> self.pollfds@.contains_key(Token(fd as usize)) && self.pollfds@[Token(fd as usize)].fd == fd
    }
}

// what one selection result says, and what the transport observed
pub enum SelView { Data(u64, Seq<u8>), Closed(u64) }
pub open spec fn sel_view(r: OsIpcSelectionResult) -> SelView {
    match r { OsIpcSelectionResult::DataReceived(id, d, _, _) => SelView::Data(id, d@), OsIpcSelectionResult::ChannelClosed(id) => SelView::Closed(id) }
}
pub open spec fn tagged(e: RxEv, pf: Map<Token, PollEntry>) -> SelView {
    match e { RxEv::Data(fd, d) => SelView::Data(pf[Token(fd as usize)].id, d), RxEv::Closed(fd) => SelView::Closed(pf[Token(fd as usize)].id) }
}
// names of the surrounding module a change to select() may plausibly mention
pub struct OsIpcSender { pub _p: () }
impl OsIpcSender {
    #[verifier::external_body]
    pub fn get_max_fragment_size() -> (r: usize) ensures r == spec_first(sys_sendbuf()) { unimplemented!() }
}

// ---- Drop for OsIpcReceiverSet ----
// D32: `for &PollEntry { id: _, fd } in self.pollfds.values()` iterates over a vector holding every entry of the map exactly
// once (one per key), in an unspecified order - std's HashMap::values contract, assumed.
#[verifier::external_body]
pub fn values_vec(m: &HashMap<Token, PollEntry>) -> (r: Vec<PollEntry>)
    ensures exists|ks: Seq<Token>| ks.no_duplicates() && ks.to_set() == m@.dom() && ks.len() == r@.len()
                && (forall|i: int| 0 <= i < ks.len() ==> (#[trigger] r@[i]) == m@[ks[i]])
{ m.values().copied().collect() }
// libc::close(fd) issued by the set's Drop: requires the member's descriptor to be still open (never twice); closing an open descriptor succeeds
#[verifier::external_body]
pub fn k_close_member(fd: c_int, Tracked(s): Tracked<&mut S>) -> (r: c_int)
    requires old(s).open.contains(fd), //@@clause:unix.set.drop/requires.closes_only_open_descriptors_of_members
    ensures r == 0, final(s).open == old(s).open.remove(fd), final(s).registered == old(s).registered, final(s).rx == old(s).rx,
        final(s).drained == old(s).drained, final(s).polled_nonempty == old(s).polled_nonempty, final(s).taken == old(s).taken
{ unimplemented!() }
pub mod thread { use super::*; #[verifier::external_body] pub fn panicking() -> bool { unimplemented!() } }

// mio's Registry / SourceFd / Interest, for code that names them instead of the one-expression form (rule B20)
pub struct Registry { pub _p: () }
pub struct SourceFd<'a>(pub &'a RawFd);
pub struct Interest { pub _p: () }
impl Interest { pub const READABLE: Interest = Interest { _p: () }; }
impl Registry {
    #[verifier::external_body]
    pub fn register(&self, source: &mut SourceFd, token: Token, interest: Interest, Tracked(s): Tracked<&mut S>) -> (r: Result<(), IoError>)
        ensures
            final(s).rx == old(s).rx, final(s).drained == old(s).drained, final(s).polled_nonempty == old(s).polled_nonempty, final(s).taken == old(s).taken,
            r is Ok ==> final(s).registered == old(s).registered.insert(token, *old(source).0) && final(s).open == old(s).open.insert(*old(source).0),
            r is Err ==> final(s).registered == old(s).registered && final(s).open == old(s).open,
    { unimplemented!() }
}
impl Registry {
    #[verifier::external_body]
    pub fn deregister(&self, source: &mut SourceFd, Tracked(s): Tracked<&mut S>) -> (r: Result<(), IoError>)
        requires old(s).registered.dom().contains(Token(*old(source).0 as usize)) && old(s).registered[Token(*old(source).0 as usize)] == *old(source).0, //@@clause:unix.set.deregister/requires.registered
        ensures
            r is Ok,
            final(s).open == old(s).open, final(s).rx == old(s).rx, final(s).drained == old(s).drained, final(s).polled_nonempty == old(s).polled_nonempty,
            final(s).registered == old(s).registered.remove(Token(*old(source).0 as usize)), final(s).taken == old(s).taken,
    { unimplemented!() }
}
// From<io::Error> for UnixError (the conversion `?` applies to mio's errors)
impl From<IoError> for UnixError {
    #[verifier::external_body]
    fn from(e: IoError) -> (r: UnixError) { unimplemented!() }
}
