"""Which units exist.  Verus units are modules with a UNIT; Kani units are added below."""
from units import u2_send

VERUS_UNITS = [u2_send.UNIT]
KANI_UNITS = []
