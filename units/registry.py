"""Which units exist.  Verus units are modules with a UNIT; Kani units are defined below."""
from units import u2_send, u3_recv, u23_roundtrip, u7_ipc, u6_router, u4_conv, u8_shm, u5_set, u6b_proxy, u9_ledger, u11_async, u10_oneshot, u12_ipcset, u13_inprocess, u14_rxmodes
from vf.kani import KaniUnit

VERUS_UNITS = [u2_send.UNIT, u3_recv.UNIT, u23_roundtrip.UNIT, u7_ipc.UNIT, u6_router.UNIT, u4_conv.UNIT, u8_shm.UNIT, u5_set.UNIT, u6b_proxy.UNIT, u9_ledger.UNIT, u11_async.UNIT, u10_oneshot.UNIT, u12_ipcset.UNIT, u13_inprocess.UNIT, u14_rxmodes.UNIT]

K_LEDGER = KaniUnit(
    name="k_ledger", harness_file="kani/harness_unix.rs", append_to="src/platform/unix/mod.rs",
    harnesses=["ledger_connect", "ledger_channel", "ledger_receiver_consume", "ledger_sender_clones",
               "ledger_opaque_channel", "ledger_shared_memory_drop", "ledger_shared_memory_clone"],
    props=["C11", "C03", "C16", "C04", "C12", "C09"],
    id_props=[("kani.ledger.sender_", ["C11", "C03"]), ("kani.ledger.opaque_", ["C11", "C16", "C03", "C12", "C09"]),
              ("kani.ledger.consume", ["C11", "C04"]), ("kani.ledger.moved_", ["C11", "C04", "C09"]), ("kani.ledger.consumed_", ["C11", "C04"]),
              ("kani.ledger.", ["C11"])],
    safety_props=["C11"],
    assumptions=["socket/socketpair return fresh descriptors or fail; close succeeds on an open descriptor; connect(2) fails nondeterministically",
                 "descriptor ledger of 8 slots (a harness creates at most 2)"],
    replay=[("kani.ledger.connect_", "connect_err_no_leak", []), ("kani.ledger.socket", "created_descriptors_cloexec", []),
            ("kani.ledger.sender_", "sender_closed_once_at_last_drop", []), ("kani.ledger.opaque_", "opaque_released_exactly_once", []),
            ("kani.ledger.consume", "consume", []), ("kani.ledger.moved_", "consume", []), ("kani.ledger.consumed_", "consume", []),
            ("kani.ledger.receiver_drop", "sender_closed_once_at_last_drop", []), ("kani.ledger.sender_drop", "sender_closed_once_at_last_drop", []),
            ("kani.ledger.duplicate_", "shared_memory_clone", []), ("kani.ledger.clone_", "shared_memory_clone", [])],
)
K_CMSG = KaniUnit(
    name="k_cmsg", harness_file="kani/harness_unix.rs", append_to="src/platform/unix/mod.rs",
    harnesses=["cmsg_recv_blocking", "cmsg_recv_nonblocking", "cmsg_recv_timeout", "conv_channel_is_closed"],
    props=["C10", "C03", "C11", "C02", "C12"],
    id_props=[("kani.cmsg.recvmsg_cmsg_cloexec", ["C11"]), ("kani.cmsg.result_mapping", ["C10", "C03"]), ("kani.cmsg.timeout_ready", ["C10", "C03", "C02", "C12"]),
              ("kani.conv.", ["C03", "C12"]), ("kani.cmsg.", ["C10"])],
    safety_props=["C10"],
    assumptions=["fcntl(F_SETFL) sets exactly the O_NONBLOCK bit it is given or fails; recvmsg and poll return ANY value (revents too)",
                 "Duration ranges over all (secs: u64, nanos < 1e9)"],
    replay=[("kani.cmsg.recvmsg_cmsg_cloexec", "received_descriptors_cloexec", []),
            ("kani.cmsg.nonblocking_flag", "nonblocking_flag_clear_on_return", []),
            ("kani.cmsg.timeout_touches_no_flags", "nonblocking_flag_clear_on_return", []),
            ("kani.cmsg.timeout_poll_waits", "timeout_poll_waits_requested_milliseconds", ["secs", "nanos"])],
)
K_FFI = KaniUnit(
    name="k_ffi", harness_file="kani/harness_unix.rs", append_to="src/platform/unix/mod.rs",
    harnesses=["ffi_cmsg_arithmetic", "ffi_unix_cmsg_new", "ffi_is_socket", "ffi_new_sockaddr_un",
               "ffi_send_first_fragment", "ffi_send_followup_fragment", "ffi_map_file", "ffi_map_file_mmap_fails", "ffi_create_shmem", "ffi_make_socket_lingering"],
    props=["C18", "C04", "C08", "C01", "C13", "C05", "C11", "C09", "C16"],
    id_props=[("kani.ffi.is_socket", ["C04", "C18"]), ("kani.ffi.map", ["C05", "C18"]), ("kani.ffi.create_shmem_name", ["C11", "C05"]), ("kani.ffi.create_shmem_returns", ["C11"]), ("kani.ffi.create_shmem", ["C05", "C11"]), ("kani.ffi.mmap", ["C05", "C18", "C16"]), ("kani.ffi.empty_region", ["C05", "C18", "C16"]),
              ("kani.ffi.one_mapping", ["C05", "C18"]), ("kani.ffi.first_fragment", ["C01", "C13", "C18", "C09"]), ("kani.ffi.followup", ["C01", "C13", "C10", "C18", "C09"]),
              ("kani.ffi.descriptors_copied", ["C04", "C18"]), ("kani.ffi.control_message", ["C04", "C18"]), ("kani.ffi.no_descriptors", ["C04", "C18"]), ("kani.ffi.sockaddr", ["C08", "C18"]), ("kani.ffi.lingering", ["C08", "C12"]), ("kani.ffi.sun_path", ["C08", "C18"]), ("kani.ffi.", ["C18"])],
    safety_props=["C18"],
    assumptions=["malloc/free as modelled by CBMC (allocation may fail); fstat returns ANY mode or fails; lengths range over all u32",
                 "send_first_fragment / send_followup_fragment: the nested fns' text is copied verbatim into the harness module on every run; <= 65 descriptors, <= 8 payload bytes (pointer and length are what is checked), sendmsg/send return ANY value"],
)
KANI_UNITS = [K_LEDGER, K_CMSG, K_FFI]
