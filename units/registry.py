"""Which units exist.  Verus units are modules with a UNIT; Kani units are added below."""
from units import u2_send, u3_recv, u23_roundtrip, u7_ipc, u6_router

VERUS_UNITS = [u2_send.UNIT, u3_recv.UNIT, u23_roundtrip.UNIT, u7_ipc.UNIT, u6_router.UNIT]
KANI_UNITS = []
