#!/usr/bin/env python3
"""refac_rerun.py [--jobs N] [ids...] — re-run `./check ALL` against every kept behaviour-preserving refactoring
(refactors/<id>/patch.diff) on scratch worktrees (never /repo).  exit 0 expected; 1 = FALSE ALARM; 2 = undecided."""
import json, os, subprocess, sys, glob, shutil, threading, queue
HERE = os.path.dirname(os.path.dirname(os.path.abspath(__file__)))
args = sys.argv[1:]
jobs = 4
if args and args[0] == "--jobs":
    jobs = int(args[1]); args = args[2:]
def sh(cmd, **kw):
    p = subprocess.run(cmd, shell=True, capture_output=True, text=True, **kw)
    return p.returncode, p.stdout + p.stderr
ids = args or [os.path.basename(d) for d in sorted(glob.glob(os.path.join(HERE, "refactors", "*-*")))]
q = queue.Queue()
for i in ids:
    q.put(i)
plock = threading.Lock()
def worker(k):
    wt = "/tmp/wt_refrerun%d" % k
    kc = "/var/tmp/ipcverif-kani-cache-r%d" % k
    sh("git -C /repo worktree remove --force %s" % wt)
    sh("git -C /repo worktree add -f --detach %s HEAD" % wt)
    if not os.path.exists(wt + "/Cargo.lock"):
        shutil.copy("/repo/Cargo.lock", wt + "/Cargo.lock")
    if not os.path.exists(kc) and os.path.exists("/var/tmp/ipcverif-kani-cache"):
        sh("cp -r /var/tmp/ipcverif-kani-cache %s" % kc)
    env = dict(os.environ, VERIF_REPO=wt, VERIF_EVIDENCE_DIR="/tmp/ref_evidence%d" % k, VERIF_REPLAY_DIR="/tmp/ref_replays%d" % k,
               VERIF_NO_REPLAY_SEARCH="1", VERIF_KANI_CACHE=kc)
    try:
        while True:
            try:
                i = q.get_nowait()
            except queue.Empty:
                return
            d = os.path.join(HERE, "refactors", i)
            sh("git -C %s checkout -- . && git -C %s clean -fdq -e Cargo.lock" % (wt, wt))
            rc, out = sh("git -C %s apply %s/patch.diff" % (wt, d))
            if rc != 0:
                rc, out = sh("git -C %s apply -C1 %s/patch.diff" % (wt, d))
            if rc != 0:
                with plock:
                    print("%-6s patch does not apply" % i, flush=True)
                continue
            r = subprocess.run(["./check", "ALL", "--tier", "quick"], cwd=HERE, env=env, capture_output=True, text=True)
            lines = [l[:260] for l in r.stdout.splitlines() if l.startswith(("VIOLATION", "UNDECIDED", "property="))]
            m = json.load(open(d + "/meta.json"))
            m["check_all_exit"] = r.returncode
            m["verdict"] = {0: "accepted (exit 0)", 1: "FALSE ALARM (exit 1)", 2: "undecided (exit 2)"}.get(r.returncode, str(r.returncode))
            m["lines"] = lines
            json.dump(m, open(d + "/meta.json", "w"), indent=1)
            with plock:
                print("%-6s %s  %s" % (i, m["verdict"], [l for l in lines if not l.startswith("property=")][:2]), flush=True)
    finally:
        sh("git -C /repo worktree remove --force %s" % wt)
        shutil.rmtree(kc, ignore_errors=True)
        shutil.rmtree("/tmp/ref_evidence%d" % k, ignore_errors=True)
        shutil.rmtree("/tmp/ref_replays%d" % k, ignore_errors=True)
ts = [threading.Thread(target=worker, args=(k,)) for k in range(jobs)]
for t in ts: t.start()
for t in ts: t.join()
