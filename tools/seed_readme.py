#!/usr/bin/env python3
"""Regenerate seeded/README.md from seeded/*/meta.json."""
import json, os, glob
HERE = os.path.dirname(os.path.dirname(os.path.abspath(__file__)))
rows = []
for d in sorted(glob.glob(os.path.join(HERE, "seeded", "*-*"))):
    m = json.load(open(os.path.join(d, "meta.json")))
    name = os.path.basename(d)
    caught = m.get("caught_by") or []
    res = m.get("check_results", {})
    own = res.get(m["property"], {})
    status = "caught" if caught else ("undecided (exit 2)" if any(v.get("exit") == 2 for v in res.values()) else "MISSED")
    obl = []
    for p in caught:
        for l in res[p]["lines"]:
            if l.startswith("VIOLATION"):
                o = l.split("replay=")[1].split()[0].split("/")[-1].replace(".json", "")
                if o not in obl:
                    obl.append(o)
    rows.append((name, m["property"], (m.get("summary") or "").replace("\n", " ")[:230], (m.get("needs_to_manifest") or "").replace("\n", " ")[:200],
                 status, ", ".join(caught), "; ".join(obl[:3]), m.get("note", "")))
out = ["# Seeded changes written by independent sub-agents", "",
       "Each directory holds `patch.diff` (against /repo HEAD at the time), `demo.rs` (integration test that fails with the change and passes without) and",
       "`meta.json` (what it needs to manifest, what was run, the result of `./check` with the patch applied to /repo).  Every change compiles and passes the 82 tests;",
       "all three conditions were re-confirmed by `tools/seed_eval.py` in a scratch worktree before the change was kept.", "",
       "| id | property | change | needs | result | caught by check(s) | failed obligation(s) | note |", "|---|---|---|---|---|---|---|---|"]
for r in rows:
    out.append("| " + " | ".join(x.replace("|", "\\|") for x in r) + " |")
n = len(rows); c = sum(1 for r in rows if r[4] == "caught")
out += ["", "%d changes kept, %d caught by at least one check, %d undecided, %d missed." % (n, c, sum(1 for r in rows if r[4].startswith("undecided")), sum(1 for r in rows if r[4] == "MISSED"))]
open(os.path.join(HERE, "seeded", "README.md"), "w").write("\n".join(out) + "\n")
print("\n".join(out[-3:]))
