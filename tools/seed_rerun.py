#!/usr/bin/env python3
"""seed_rerun.py [ids...] — re-run the checks against every kept seeded change, on a scratch worktree (never /repo).
Updates seeded/<id>/meta.json (check_results, caught_by) and prints a table."""
import json, os, subprocess, sys, glob, shutil
HERE = os.path.dirname(os.path.dirname(os.path.abspath(__file__)))
WT = "/tmp/wt_rerun"
def sh(cmd, **kw):
    p = subprocess.run(cmd, shell=True, capture_output=True, text=True, **kw)
    return p.returncode, p.stdout + p.stderr
sh("git -C /repo worktree remove --force %s" % WT)
rc, out = sh("git -C /repo worktree add -f --detach %s HEAD" % WT)
ids = sys.argv[1:] or [os.path.basename(d) for d in sorted(glob.glob(os.path.join(HERE, "seeded", "*-*")))]
shutil.copy("/repo/Cargo.lock", WT + "/Cargo.lock") if not os.path.exists(WT + "/Cargo.lock") else None
env = dict(os.environ, VERIF_REPO=WT, VERIF_EVIDENCE_DIR="/tmp/seed_evidence", VERIF_REPLAY_DIR="/tmp/seed_replays", VERIF_NO_REPLAY_SEARCH="1")
try:
    for i in ids:
        d = os.path.join(HERE, "seeded", i)
        m = json.load(open(os.path.join(d, "meta.json")))
        sh("git -C %s checkout -- . && git -C %s clean -fdq" % (WT, WT))
        rc, out = sh("git -C %s apply %s/patch.diff" % (WT, d))
        if rc != 0:
            print("%-8s PATCH DOES NOT APPLY to /repo HEAD: %s" % (i, out.strip()[-120:])); continue
        props = [m["property"]] + [p for p in (m.get("check_results") or {}) if p != m["property"]]
        res = {}
        for p in props:
            q = subprocess.run(["./check", p, "--tier", "quick"], cwd=HERE, env=env, capture_output=True, text=True)
            lines = [l[:300] for l in q.stdout.splitlines() if l.startswith(("VIOLATION", "UNDECIDED", "property="))]
            res[p] = {"exit": q.returncode, "lines": lines}
        m["check_results"] = res
        m["caught_by"] = [p for p, c in res.items() if c["exit"] == 1]
        json.dump(m, open(os.path.join(d, "meta.json"), "w"), indent=1)
        print("%-8s %s  %s" % (i, "caught by " + ",".join(m["caught_by"]) if m["caught_by"] else "NOT CAUGHT", {p: c["exit"] for p, c in res.items()}))
finally:
    sh("git -C /repo worktree remove --force %s" % WT)
