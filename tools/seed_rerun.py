#!/usr/bin/env python3
"""seed_rerun.py [--jobs N] [ids...] — re-run the checks against every kept seeded change, on scratch worktrees (never /repo).
Each worker has its own worktree and its own Kani scratch crate.  Updates seeded/<id>/meta.json (check_results, caught_by)
and prints a table."""
import json, os, subprocess, sys, glob, shutil, threading, queue
HERE = os.path.dirname(os.path.dirname(os.path.abspath(__file__)))
args = sys.argv[1:]
jobs = 4
if args and args[0] == "--jobs":
    jobs = int(args[1]); args = args[2:]
def sh(cmd, **kw):
    p = subprocess.run(cmd, shell=True, capture_output=True, text=True, **kw)
    return p.returncode, p.stdout + p.stderr
ids = args or [os.path.basename(d) for d in sorted(glob.glob(os.path.join(HERE, "seeded", "*-*")))]
q = queue.Queue()
for i in ids:
    q.put(i)
plock = threading.Lock()
def worker(k):
    wt = "/tmp/wt_rerun%d" % k
    kc = "/var/tmp/ipcverif-kani-cache-w%d" % k
    sh("git -C /repo worktree remove --force %s" % wt)
    sh("git -C /repo worktree add -f --detach %s HEAD" % wt)
    if not os.path.exists(wt + "/Cargo.lock"):
        shutil.copy("/repo/Cargo.lock", wt + "/Cargo.lock")
    if not os.path.exists(kc) and os.path.exists("/var/tmp/ipcverif-kani-cache"):
        sh("cp -r /var/tmp/ipcverif-kani-cache %s" % kc)
    env = dict(os.environ, VERIF_REPO=wt, VERIF_EVIDENCE_DIR="/tmp/seed_evidence%d" % k, VERIF_REPLAY_DIR="/tmp/seed_replays%d" % k,
               VERIF_NO_REPLAY_SEARCH="1", VERIF_KANI_CACHE=kc)
    try:
        while True:
            try:
                i = q.get_nowait()
            except queue.Empty:
                return
            d = os.path.join(HERE, "seeded", i)
            m = json.load(open(os.path.join(d, "meta.json")))
            sh("git -C %s checkout -- . && git -C %s clean -fdq -e Cargo.lock" % (wt, wt))
            rc, out = sh("git -C %s apply %s/patch.diff" % (wt, d))
            if rc != 0:
                with plock:
                    print("%-8s PATCH DOES NOT APPLY to /repo HEAD: %s" % (i, out.strip()[-120:]), flush=True)
                continue
            props = [m["property"]] + [p for p in (m.get("check_results") or {}) if p != m["property"]]
            res = {}
            for p in props:
                r = subprocess.run(["./check", p, "--tier", "quick"], cwd=HERE, env=env, capture_output=True, text=True)
                lines = [l[:300] for l in r.stdout.splitlines() if l.startswith(("VIOLATION", "UNDECIDED", "property="))]
                res[p] = {"exit": r.returncode, "lines": lines}
            m["check_results"] = res
            m["caught_by"] = [p for p, c in res.items() if c["exit"] == 1]
            json.dump(m, open(os.path.join(d, "meta.json"), "w"), indent=1)
            with plock:
                print("%-8s %s  %s" % (i, "caught by " + ",".join(m["caught_by"]) if m["caught_by"] else "NOT CAUGHT", {p: c["exit"] for p, c in res.items()}), flush=True)
    finally:
        sh("git -C /repo worktree remove --force %s" % wt)
        shutil.rmtree(kc, ignore_errors=True)
        shutil.rmtree("/tmp/seed_evidence%d" % k, ignore_errors=True)
        shutil.rmtree("/tmp/seed_replays%d" % k, ignore_errors=True)
ts = [threading.Thread(target=worker, args=(k,)) for k in range(jobs)]
for t in ts: t.start()
for t in ts: t.join()
