#!/usr/bin/env python3
"""refac_eval.py <dir-with-out/N/patch.diff> <label> — apply each behaviour-preserving refactoring to a scratch worktree of /repo HEAD
and run every unit once (`./check ALL`).  exit 0 expected; exit 1 = FALSE ALARM; exit 2 = undecided.  Results -> /verif/refactors/<label>-<n>/."""
import json, os, subprocess, sys, shutil, glob
root, label = sys.argv[1], sys.argv[2]
WT = "/tmp/wt_refac_%s" % label
def sh(cmd, **kw):
    p = subprocess.run(cmd, shell=True, capture_output=True, text=True, **kw)
    return p.returncode, p.stdout + p.stderr
sh("git -C /repo worktree remove --force %s" % WT)
sh("git -C /repo worktree add -f --detach %s HEAD" % WT)
shutil.copy("/repo/Cargo.lock", WT + "/Cargo.lock") if not os.path.exists(WT + "/Cargo.lock") else None
env = dict(os.environ, VERIF_REPO=WT, VERIF_EVIDENCE_DIR="/tmp/seed_evidence", VERIF_REPLAY_DIR="/tmp/seed_replays", VERIF_NO_REPLAY_SEARCH="1")
try:
    for d in sorted(glob.glob(os.path.join(root, "out", "*"))):
        n = os.path.basename(d)
        if not os.path.exists(d + "/patch.diff"):
            continue
        sh("git -C %s checkout -- . && git -C %s clean -fdq" % (WT, WT))
        rc, out = sh("git -C %s apply %s/patch.diff" % (WT, d))
        if rc != 0:
            rc, out = sh("git -C %s apply -C1 %s/patch.diff" % (WT, d))
        if rc != 0:
            print("%s-%s: patch does not apply" % (label, n)); continue
        q = subprocess.run(["./check", "ALL", "--tier", "quick"], cwd="/verif", env=env, capture_output=True, text=True)
        lines = [l[:260] for l in q.stdout.splitlines() if l.startswith(("VIOLATION", "UNDECIDED", "property="))]
        meta = json.load(open(d + "/meta.json")) if os.path.exists(d + "/meta.json") else {}
        dest = "/verif/refactors/%s-%s" % (label, n)
        os.makedirs(dest, exist_ok=True)
        shutil.copy(d + "/patch.diff", dest + "/patch.diff")
        verdict = {0: "accepted (exit 0)", 1: "FALSE ALARM (exit 1)", 2: "undecided (exit 2)"}.get(q.returncode, str(q.returncode))
        json.dump({"summary": meta.get("summary"), "why_behaviour_preserving": meta.get("why_behaviour_preserving"),
                   "check_all_exit": q.returncode, "verdict": verdict, "lines": lines}, open(dest + "/meta.json", "w"), indent=1)
        print("%s-%s: %s  %s" % (label, n, verdict, [l for l in lines if not l.startswith("property=")][:2]))
finally:
    sh("git -C /repo worktree remove --force %s" % WT)
