#!/usr/bin/env python3
"""seed_eval.py <PROP> <N> [--props C01,C02]  — confirm a sub-agent's change in a scratch worktree and run our checks on it.
1. scratch worktree /tmp/wt_eval_<PROP>_<N> at /repo HEAD: apply patch; suite passes; demo fails; revert; demo passes.
2. apply the patch to /repo, run ./check for the property (and any extra ones), undo.
3. keep under /verif/seeded/<PROP>-<N>/ : patch.diff, demo.rs, meta.json (what it needs, what was run, which check caught it)."""
import json, os, subprocess, sys, shutil, re
prop, n = sys.argv[1], sys.argv[2]
extra = []
wave = ""
for a in sys.argv[3:]:
    if a.startswith("--props"):
        extra = a.split("=", 1)[1].split(",")
    if a.startswith("--wave"):
        wave = a.split("=", 1)[1]
feat = ""
srcdir = None
label = None
for a in sys.argv[3:]:
    if a.startswith("--features"):
        feat = " --features " + a.split("=", 1)[1]
    if a.startswith("--src"):
        srcdir = a.split("=", 1)[1]
    if a.startswith("--label"):
        label = a.split("=", 1)[1]
src = "/tmp/seed%s_%s/out/%s" % (wave, prop, n)
if srcdir:
    src = srcdir
if not os.path.exists(src):
    src = "/var/tmp/seed_out/seed%s_%s/out/%s" % (wave, prop, n)
wt = "/tmp/wt_eval_%s_%s%s" % (prop, label or n, wave)
env = dict(os.environ, CARGO_TARGET_DIR=wt + "/target", CARGO_NET_OFFLINE="true")
def sh(cmd, cwd=None, timeout=1800):
    p = subprocess.run(cmd, shell=True, cwd=cwd, env=env, capture_output=True, text=True, timeout=timeout)
    return p.returncode, p.stdout + p.stderr
res = {"property": prop, "n": n}
agent_meta = json.load(open(src + "/meta.json")) if os.path.exists(src + "/meta.json") else {}
sh("git -C /repo worktree remove --force %s" % wt)
rc, out = sh("git -C /repo worktree add -f --detach %s HEAD" % wt)
try:
    rc, out = sh("git apply %s/patch.diff" % src, cwd=wt)
    res["patch_applies_to_repo_head"] = (rc == 0)
    ported = None
    if rc != 0:
        # /repo HEAD moved on (fix: commits) since the agent's worktree was cut: re-apply with less context, keep the ported diff
        for cmd in ("git apply -C1 %s/patch.diff", "patch -p1 -F3 --no-backup-if-mismatch < %s/patch.diff"):
            sh("git checkout -- .", cwd=wt)
            rc, out = sh(cmd % src, cwd=wt)
            if rc == 0:
                break
        if rc != 0 and os.path.exists(src + "/patch.ported.diff"):
            sh("git checkout -- .", cwd=wt)
            rc, out = sh("git apply %s/patch.ported.diff" % src, cwd=wt)
        if rc != 0:
            res["note"] = out[-500:]
            print(json.dumps(res, indent=1)); sys.exit(1)
        rc2, ported = sh("git diff -- src", cwd=wt)
        open(src + "/patch.ported.diff", "w").write(ported)
        res["ported_to_current_head"] = True
    os.makedirs(wt + "/tests", exist_ok=True)
    shutil.copy(src + "/demo.rs", wt + "/tests/seed_demo.rs")
    rc, out = sh("cargo nextest run --workspace --no-fail-fast --test-threads 8 --offline -E 'not binary(seed_demo)' 2>&1 | tail -5", cwd=wt)
    m = re.search(r"(\d+) tests run: (\d+) passed", out)
    res["suite_with_change"] = m.group(0) if m else out[-300:]
    res["suite_passes_with_change"] = bool(m and m.group(1) == m.group(2) and int(m.group(1)) >= 82)
    rc, out = sh("cargo test --offline%s --test seed_demo 2>&1 | tail -15" % feat, cwd=wt)
    res["demo_fails_with_change"] = ("test result: FAILED" in out) or ("error: test failed" in out) or ("SIGABRT" in out) or ("SIGSEGV" in out)
    res["demo_with_change_tail"] = out[-400:]
    sh("git checkout -- src", cwd=wt)
    rc, out = sh("cargo test --offline%s --test seed_demo 2>&1 | tail -8" % feat, cwd=wt)
    res["demo_passes_without_change"] = ("test result: ok" in out) and ("FAILED" not in out)
    res["demo_without_change_tail"] = out[-300:]
    # our checks, against the scratch worktree with the change applied (never /repo)
    use = src + ("/patch.ported.diff" if os.path.exists(src + "/patch.ported.diff") else "/patch.diff")
    checks = {}
    sh("git checkout -- . && git clean -fdq -e target", cwd=wt)
    rc, out = sh("git apply %s" % use, cwd=wt)
    cenv = "VERIF_REPO=%s VERIF_EVIDENCE_DIR=/tmp/seed_evidence VERIF_REPLAY_DIR=/tmp/seed_replays" % wt
    for p in [prop] + extra:
        rc, out = sh("cd /verif && %s ./check %s --tier quick" % (cenv, p), timeout=1800)
        lines = [l for l in out.splitlines() if l.startswith(("VIOLATION", "UNDECIDED", "KNOWN-FINDING", "property="))]
        checks[p] = {"exit": rc, "lines": [l[:300] for l in lines if not l.startswith("KNOWN-FINDING")]}
finally:
    sh("git -C /repo worktree remove --force %s" % wt)
    shutil.rmtree(wt, ignore_errors=True)
confirmed = res.get("suite_passes_with_change") and res.get("demo_fails_with_change") and res.get("demo_passes_without_change")
res["confirmed"] = bool(confirmed)
res["checks"] = checks
res["caught_by"] = [p for p, c in checks.items() if c["exit"] == 1]
d = "/verif/seeded/%s-%s%s" % (prop, label or n, wave)
if confirmed:
    os.makedirs(d, exist_ok=True)
    shutil.copy(use, d + "/patch.diff")
    if use.endswith("ported.diff"):
        shutil.copy(src + "/patch.diff", d + "/patch.original.diff")
    shutil.copy(src + "/demo.rs", d + "/demo.rs")
    meta = {"property": prop, "summary": agent_meta.get("summary"), "needs_to_manifest": agent_meta.get("needs_to_manifest"),
            "what_was_run": {"confirmation": "scratch worktree of /repo HEAD: git apply patch.diff; cargo nextest run (82 tests) -> %s; cargo test --test seed_demo -> fails; git checkout -- src; cargo test --test seed_demo -> passes" % res.get("suite_with_change"),
                             "checks": "scratch worktree of /repo HEAD with patch.diff applied; VERIF_REPO=<worktree> ./check <P> --tier quick (equivalent to: git -C /repo apply patch.diff; ./check <P>; git -C /repo checkout -- .)"},
            "check_results": checks, "caught_by": res["caught_by"], "written_by": "independent sub-agent given only the property text",
            "note": ("patch.diff is the agent's change re-applied to the current /repo HEAD (fix: commits moved the context); the agent's own diff is patch.original.diff" if use.endswith("ported.diff") else "")}
    json.dump(meta, open(d + "/meta.json", "w"), indent=1)
print(json.dumps(res, indent=1))
